#include <cappuccino/cappuccino.hpp>
#include <chrono>
#include <cstdio>
#include <string>
#include <thread>
#include <vector>

int main()
{
    using namespace std::chrono_literals;
    cappuccino::tlru_cache<int, std::string> cache{4};
    std::vector<int> keys{1, 2, 3, 4};

    // Empty cache: every requested key must still be reported (as missing).
    {
        auto r = cache.find_range(keys);
        if (r.size() != keys.size()) { std::printf("empty: %zu results\n", r.size()); return 1; }
        for (size_t i = 0; i < keys.size(); ++i)
            if (r[i].first != keys[i] || r[i].second.has_value()) return 2;
    }

    // The cache becomes empty half way through the range (the only element has expired).
    cache.insert(20ms, 2, "two");
    std::this_thread::sleep_for(300ms);
    {
        auto r = cache.find_range(keys);
        if (r.size() != keys.size()) { std::printf("expired: %zu results\n", r.size()); return 3; }
        for (size_t i = 0; i < keys.size(); ++i)
            if (r[i].first != keys[i] || r[i].second.has_value()) return 4;
        if (cache.size() != 0) return 5;
    }

    // Non empty cache keeps working.
    cache.insert(1h, 3, "three");
    {
        auto r = cache.find_range(keys);
        if (r.size() != keys.size()) return 6;
        if (!r[2].second.has_value() || *r[2].second != "three") return 7;
        if (r[0].second || r[1].second || r[3].second) return 8;
    }
    return 0;
}
