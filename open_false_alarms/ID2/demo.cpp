// ut_map::clear() must drop the TTL bookkeeping together with the keyed
// elements: after clear() nothing may be left to expire.
#include <cappuccino/cappuccino.hpp>

#include <chrono>
#include <cstdint>
#include <iostream>
#include <string>
#include <thread>

int main()
{
    using namespace std::chrono_literals;
    cappuccino::ut_map<uint64_t, std::string> map{50ms};

    map.insert(1, "one");
    map.insert(2, "two");
    map.insert(3, "three");
    map.clear();
    if (!map.empty()) { std::cerr << "not empty after clear\n"; return 1; }

    std::this_thread::sleep_for(300ms);

    // Nothing is stored, so nothing can expire.
    const auto pruned = map.clean_expired_values();
    int rc = 0;
    if (pruned != 0) { std::cerr << "clean_expired_values after clear returned " << pruned << " (expected 0)\n"; rc = 1; }
    if (map.size() != 0) { std::cerr << "size " << map.size() << " (expected 0)\n"; rc = 1; }

    map.insert(7, "seven");
    if (map.size() != 1) { std::cerr << "size " << map.size() << " (expected 1)\n"; rc = 1; }
    auto v = map.find(7);
    if (!v.has_value() || v.value() != "seven") { std::cerr << "find(7) wrong\n"; rc = 1; }

    std::cout << (rc == 0 ? "OK\n" : "BROKEN\n");
    return rc;
}
