// Witness for F4 (C16 C17): update_ttl breaks the deadline order of utlru's TTL list.
#include <cappuccino/cappuccino.hpp>
#include <cstdio>
#include <thread>
using namespace cappuccino;
using namespace std::chrono_literals;
int main()
{
    int bad = 0;
    {
        utlru_cache<uint64_t, std::string, thread_safe::no> c{500ms, 2};
        c.insert(1, "live");
        c.update_ttl(10ms);
        c.insert(2, "dies");
        std::this_thread::sleep_for(40ms);
        c.insert(3, "new");          // full; key 2 is expired and must be the victim
        bool one = c.find(1).has_value();
        std::printf("C16: key1 %s (want kept)\n", one ? "kept" : "evicted");
        if (!one) bad |= 1;
    }
    {
        utlru_cache<uint64_t, std::string, thread_safe::no> c{500ms, 4};
        c.insert(1, "live");
        c.update_ttl(10ms);
        c.insert(2, "dies");
        std::this_thread::sleep_for(40ms);
        auto n = c.clean_expired_values();
        std::printf("C17: cleaned=%zu size=%zu (want 1,1)\n", n, c.size());
        if (n != 1 || c.size() != 1) bad |= 2;
    }
    return bad;
}
