// Witness for F5-F8 (C06 C07): observers / update_ttl / pre-lock reads race with locked writers.
// Build: clang++ -std=gnu++17 -I/repo/inc -fsanitize=thread -O1 -g f5_f8_races.cpp -lpthread ; run: any TSan report = defect
#include <cappuccino/cappuccino.hpp>
#include <thread>
#include <atomic>
using namespace cappuccino;
using namespace std::chrono_literals;
template<class F, class G> void race(F f, G g)
{
    std::atomic<bool> go{false};
    std::thread a([&]{ while(!go) {} for (int i = 0; i < 2000; ++i) f(i); });
    std::thread b([&]{ while(!go) {} for (int i = 0; i < 2000; ++i) g(i); });
    go = true; a.join(); b.join();
}
int main()
{
    volatile size_t sink = 0;
    { lru_cache<uint64_t,uint64_t> c{8};   race([&](int i){ c.insert(uint64_t(i), uint64_t(i)); }, [&](int){ sink = c.size(); sink = c.empty(); }); }
    { fifo_cache<uint64_t,uint64_t> c{8};  race([&](int i){ c.insert(uint64_t(i), uint64_t(i)); }, [&](int){ sink = c.capacity(); }); }
    { lfu_cache<uint64_t,uint64_t> c{8};   race([&](int i){ c.insert(uint64_t(i), uint64_t(i)); c.erase(i-3); }, [&](int){ sink = c.capacity(); }); }
    { lfuda_cache<uint64_t,uint64_t> c{8}; race([&](int i){ c.insert(uint64_t(i), uint64_t(i)); c.erase(i-3); }, [&](int){ sink = c.capacity(); }); }
    { tlru_cache<uint64_t,uint64_t> c{8};  race([&](int i){ c.insert(1ms, uint64_t(i), uint64_t(i)); }, [&](int){ sink = c.clean_expired_values(); }); }
    { utlru_cache<uint64_t,uint64_t> c{1ms, 8}; race([&](int i){ c.insert(uint64_t(i), uint64_t(i)); }, [&](int i){ c.update_ttl(std::chrono::milliseconds{i}); }); }
    { ut_map<uint64_t,uint64_t> c{1ms};    race([&](int i){ c.insert(uint64_t(i), uint64_t(i)); }, [&](int){ c.clear(); sink = c.size(); }); }
    { ut_set<uint64_t> c{1ms};             race([&](int i){ c.insert(i); }, [&](int){ sink = c.size(); }); }
    return 0;
}
