// Witness for F3 (C14): a used entry is filed before the youngest one and shields idle entries.
#include <cappuccino/cappuccino.hpp>
#include <cstdio>
#include <thread>
using namespace cappuccino;
using namespace std::chrono_literals;
int main()
{
    lfuda_cache<uint64_t, std::string, thread_safe::no> c{4, 5ms, 0.5f};
    c.insert(1, "a"); c.insert(2, "b");
    std::this_thread::sleep_for(20ms);
    c.find(1);                       // key 1 fresh; key 2 idle for 4x tick
    auto aged = c.dynamically_age(); // must age exactly key 2
    std::printf("aged=%zu (want 1)\n", aged);
    return aged == 1 ? 0 : 1;
}
