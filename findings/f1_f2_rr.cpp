// Witness for F1/F2 (C01 C03 C08 C15): rr_cache bookkeeping after erase/evict chains.
// Build: clang++ -std=gnu++17 -I/repo/inc -fsanitize=address,undefined f1_f2_rr.cpp
#include <cappuccino/cappuccino.hpp>
#include <cstdio>
#include <string>
using namespace cappuccino;
int main()
{
    int bad = 0;
    {   // F2: do_erase swaps two open-list entries without refreshing the moved slot's position.
        rr_cache<uint64_t, std::string, thread_safe::no> c{3};
        c.insert(1, "one"); c.insert(2, "two"); c.insert(3, "three");
        c.erase(1); c.erase(3);
        c.insert(4, "four"); c.insert(5, "five");
        auto v = c.find(2);
        std::printf("find(2) = %s (want two)\n", v ? v->c_str() : "<none>");
        if (!v || *v != "two") bad |= 1;
    }
    {   // F1: do_prune hands a position in the open list to do_erase, which expects a slot index.
        rr_cache<uint64_t, std::string, thread_safe::no> c{2};
        c.insert(1, "one"); c.insert(2, "two");
        c.erase(1);            // open list is now [1,0], slot 1 (key 2) in use at position 0
        c.insert(3, "three");  // slot 0 claimed at position 1
        // full: evict. Position drawn in {0,1}; do_erase(position) treats it as slot index.
        for (uint64_t k = 10; k < 40; ++k)
        {
            c.insert(k, "x");
            if (c.size() > c.capacity()) bad |= 2;
        }
        size_t found = 0;
        for (uint64_t k = 0; k < 40; ++k) if (c.find(k)) ++found;
        std::printf("size=%zu found=%zu cap=%zu\n", c.size(), found, c.capacity());
        if (found != c.size()) bad |= 4;
    }
    std::printf(bad ? "DEFECT bits=%d\n" : "OK %d\n", bad);
    return bad ? 1 : 0;
}
