"""C20 (clear = fresh), C18 (range == singles), C01 (lookup integrity), C08 (memory safety)."""
import re

import lift
import ops
from frontend import _walk
from lift import Ent, is_ld, ld0, rel
from model import THIS, CACHES
from pos import Node
from report import Violation
from rules_seq import (V, method_segments, site_of_seg, first_site, found_expired, where_of, same_ent, TTL_CACHES, actual_class,
                       expected_insert_classes)
from rules_pos import body_case, simulate
from rules_ttl import clock_syms, top_of, yielded_values
from stdmodel import typeclass
from symex import show, show_site, root_of


# ---------------------------------------------------------------------------------------------- C20

def written_roles(an, cm, roles):
    """which abstract state components have a writer outside the constructor and clear()"""
    w = {}
    for m in an.entry_points(cm):
        if ops.kind_of(m) in ('CLEAR',):
            continue
        for top in method_segments(an, cm, roles, m):
            for seg in top.all_segments():
                for e in seg.effects:
                    if e.kind == 'CNT':
                        w.setdefault('counter', e)
                        if getattr(e, 'also_part', False):
                            w.setdefault('partition', e)
                    elif e.kind == 'PART':
                        w.setdefault('partition', e)
                    elif e.kind in ('BIND', 'UNBIND', 'INDEX_OP'):
                        w.setdefault('index', e)
                    elif e.kind in ('AUX_ADD', 'AUX_DEL', 'AUX_MOVE', 'AUX_OP', 'AUX_ERASE_RANGE'):
                        w.setdefault('aux:' + e.aux, e)
                    elif e.kind in ('MOVE', 'ORDER_OP'):
                        w.setdefault('order', e)
                    elif e.kind in ('VAL', 'DEADLINE', 'STAMP', 'BACKPTR'):
                        w.setdefault('elements', e)
                    elif e.kind == 'CFG':
                        w.setdefault('config:' + e.field, e)
                    elif e.kind in ('PERM_WR', 'SWAP'):
                        w.setdefault('perm', e)
                    elif e.kind == 'RNG_STATE':
                        w.setdefault('rng', e)
                    elif e.kind == 'OTHER_WR' and e.field:
                        w.setdefault('field:' + e.field, e)
                    elif e.kind in ('STORAGE_OP',):
                        w.setdefault('storage', e)
    return w


def fresh_slots(e, roles):
    """m_elements = vector<element>(m_elements.size()/capacity()): every slot back to its default-constructed
    state, which is what the constructor leaves (slot contents are dead storage while the container is empty)"""
    if e.kind != 'OTHER_WR' or e.field != getattr(roles, 'slots', None):
        return False
    v = e.val
    if not (isinstance(v, tuple) and v and v[0] == 'ctor' and 'vector<' in str(v[1]) and len(v[2]) in (1, 2)):
        return False
    n = v[2][0]
    if len(v[2]) == 2 and v[2][1] != ('default',):
        return False
    return (isinstance(n, tuple) and n[0] == 'q' and n[1] in ('size', 'capacity')
            and n[2] == ('fld', ('this',), roles.slots))


def unkeys_loop_element(e, lp, roles):
    """`e.m_keyed_position = std::nullopt` on the current element of a range-for over the order list"""
    if e.kind == 'BACKPTR':
        return empty_result(e.val) or e.val == ('global', 'nullopt')
    if e.kind != 'OTHER_WR' or not isinstance(e.loc, tuple) or len(e.loc) != 3 or e.loc[0] != 'fld' or e.loc[2] not in roles.backptrs:
        return False
    base = e.loc[1]
    if not (isinstance(base, tuple) and base[:1] == ('elem',) and rel(base[1], 0) == rel(lp.range, 0)):
        return False
    return e.val == ('global', 'nullopt') or empty_result(e.val)


def rule_c20(an, res):
    prop = 'C20'
    for cm, roles in an.classes():
        # utlru_cache and ut_map have clear() on the pinned tree; a clear() added to any other container is held to the same rule
        clears = [m for m in an.entry_points(cm) if ops.kind_of(m) == 'CLEAR']
        if not clears:
            if cm.name in ('utlru_cache', 'ut_map'):
                res.incomplete.append('G-ANCHOR: %s has no clear()' % cm.name)
            continue
        m = clears[0]
        mutable = written_roles(an, cm, roles)
        for comp in list(mutable):
            # a callback the caller installs (std::function member) is configuration, kept across clear() like the configured ttl
            f = cm.field_by_name.get(comp[6:]) if comp.startswith('field:') else None
            if f is not None and 'std::function<' in (f.type or ''):
                del mutable[comp]
        L = lift.Lifter(roles)
        for top in method_segments(an, cm, roles, m, res):
            effs = top.state_effects()
            val = ' '.join(top.valuation())
            ne = top.cond('NONEMPTY')
            if ne is False:
                ok = not effs
                res.ob('R-RESET-COMPLETE', ok=ok)
                if not ok:
                    V(res, prop, 'R-RESET-COMPLETE', cm, m.key(), 'clear() of an empty container changes state', first_site(effs, top, m),
                      'effects on the empty path: %s' % [repr(e) for e in effs][:4])
                continue
            if top.loops:
                nl = numbering_loops(top.path, THIS(roles.order)) if roles.order else 2
                # `for (auto& e : m_fifo_list) e.m_keyed_position = std::nullopt;`: a range-for over the whole order list whose only
                # effect is to un-key every node (the optional back-pointer a constructed node starts with)
                if roles.order and getattr(roles, 'optional_backptr', False):
                    for lp, segs in top.loops:
                        if lp.kind == 'range' and rel(lp.range, 0) == THIS(roles.order) and segs and \
                                all(s2.status == 'continue' and s2.state_effects() and
                                    all(unkeys_loop_element(e, lp, roles) for e in s2.state_effects()) for s2 in segs):
                            nl += 1
                if nl != len(top.loops) and cm.name not in ('utlru_cache', 'ut_map'):
                    # a clear() added to a container the property does not name (C20 speaks of utlru_cache / ut_map), written with a
                    # loop over a run-time number of nodes: which nodes it resets is not decided here
                    msg = ('G-UNKNOWN clear() walks the list with a hand-written loop (which nodes it resets is a run-time count) in %s '
                           'reached from %s::%s' % (show_site(site_of_seg(top, m)), cm.name, m.key()))
                    if msg not in res.incomplete:
                        res.incomplete.append(msg)
                    continue
                if nl != len(top.loops):
                    res.ob('R-RESET-COMPLETE', ok=False)
                    V(res, prop, 'R-RESET-COMPLETE', cm, m.key(), 'clear() contains a loop that is not an exact re-numbering of the whole slot list',
                      site_of_seg(top, m), val)
                    continue
            for comp, wit in sorted(mutable.items()):
                ok, why = reset_ok(comp, effs, roles, L)
                res.ob('R-RESET-COMPLETE', ok=ok)
                res.sample(dict(container=cm.name, component=comp, written_by=show_site(wit.site), reset=ok if ok else why), cap=12)
                if not ok:
                    V(res, prop, 'R-RESET-COMPLETE', cm, m.key(), '%s is not reset to its constructed state' % comp.split(':')[-1] if ':' in comp else '%s is not reset to its constructed state' % comp,
                      first_site(effs, top, m), 'clear() path [%s]: %s (this state is modified e.g. at %s)' % (val, why, show_site(wit.site)))
            # nothing else
            allowed = ('CNT', 'PART', 'INDEX_OP', 'AUX_OP', 'IOTA', 'RANGE_WR')
            extra = [e for e in effs if e.kind not in allowed and not fresh_slots(e, roles)]
            res.ob('R-RESET-ONLY', ok=not extra)
            if extra:
                V(res, prop, 'R-RESET-ONLY', cm, m.key(), 'clear() does more than resetting: %s' % extra[0].kind, extra[0].site, repr(extra[0]))
        # the per-slot fields clear() leaves as they are (and whose list nodes it re-numbers) are dead: nothing reads a slot's stored
        # iterators before the bind that rewrites them -- the obligation that makes the 'elements' component reset-free
        if roles.kind == 'slotvec':
            for m2 in an.entry_points(cm):
                if ops.kind_of(m2) in ('CLEAR', 'OBS'):
                    continue
                for top in method_segments(an, cm, roles, m2, res):
                    for seg in top.all_segments():
                        if lift.feasible(seg)[0]:
                            check_free_slot(res, prop, cm, roles, m2, seg)


def reset_ok(comp, effs, roles, L):
    if comp == 'counter':
        c = [e for e in effs if e.kind == 'CNT']
        return (bool(c) and c[-1].val == ('int', 0)), 'element counter is not set to 0'
    if comp == 'partition' and getattr(roles, 'perm', None) and roles.part == roles.counter:
        # rr: the partition is the in-use count itself (an index into the open list): back to 0
        c = [e for e in effs if e.kind == 'CNT']
        return (bool(c) and c[-1].val == ('int', 0)), 'in-use count / partition index is not set to 0'
    if comp == 'partition':
        p = [e for e in effs if e.kind == 'PART']
        good = p and isinstance(p[-1].val, tuple) and p[-1].val[0] == 'q' and p[-1].val[1] in ('begin', 'cbegin') and p[-1].val[2] == THIS(roles.order)
        return bool(good), 'free/used partition is not moved back to the head of the slot list'
    if comp == 'index':
        c = [e for e in effs if e.kind == 'INDEX_OP' and e.name == 'clear']
        return bool(c), 'key index is not cleared'
    if comp.startswith('aux:'):
        a = comp[4:]
        c = [e for e in effs if e.kind == 'AUX_OP' and e.aux == a and e.name == 'clear']
        return bool(c), '%s is not cleared' % a
    if comp == 'order':
        # any order of the slot list is a valid fresh state (slots are interchangeable); a re-numbering must cover the whole list
        io = [e for e in effs if e.kind == 'IOTA']
        order = THIS(roles.order)
        for e in io:
            f, l = e.first, e.last
            whole = (isinstance(f, tuple) and f[0] == 'q' and f[1] in ('begin', 'cbegin') and f[2] == order
                     and isinstance(l, tuple) and l[0] == 'q' and l[1] in ('end', 'cend') and l[2] == order)
            if not whole:
                return False, 'slot list is re-numbered only partially (%s .. %s): slot indices get duplicated' % (show(f), show(l))
        return True, ''
    if comp == 'elements':
        return True, ''     # dead-slot rule: fields of free slots are never read before the next bind rewrites them (C08 R-FREE-SLOT)
    if comp.startswith('config:'):
        return True, ''     # configuration the statement keeps ("the currently configured TTL")
    if comp in ('rng', 'perm', 'storage'):
        return True, ''
    return False, 'mutable state %s has no reset rule' % comp


# ---------------------------------------------------------------------------------------------- C18

SINGLE_OF = {'insert_range': 'insert', 'erase_range': 'erase', 'find_range': 'find', 'find_range_fill': 'find'}


def canon(t, subst, counter):
    """canonical form of a term: subject key/value/ttl -> $K/$V/$T, results renumbered, loop ids dropped"""
    if not isinstance(t, tuple) or not t:
        return t
    for pat, name in subst:
        if t == pat:
            return ('$', name)
    k = t[0]
    if k in ('res', 'now', 'rng'):
        key = (k, t[1])
        if key not in counter:
            counter[key] = len([x for x in counter if x[0] == k])
        return (k, '#%d' % counter[key])
    if k == 'lv':
        return ('lv', t[1])
    if k == 'var':
        return ('var', t[1])
    if k == 'elem':
        return ('elem', canon(t[1], subst, counter))
    if k == 'ld':
        return ('ld', 0, canon(t[2], subst, counter))
    if k == 'q':
        return ('q', t[1], canon(t[2], subst, counter), tuple(canon(a, subst, counter) for a in t[3]), None if t[4] is None else max(t[4], 0))
    if k == 'ctor' and len(t) == 3 and isinstance(t[1], str) and t[1].replace('const ', '').startswith('std::optional<'):
        return ('ctor', 'std::optional<>', tuple(canon(x, subst, counter) if isinstance(x, tuple) else x for x in t[2]))     # however the type is spelled
    return tuple(canon(x, subst, counter) if isinstance(x, tuple) else x for x in t)


ENT_KINDS = ('FOUND', 'ATPART', 'BACK', 'AUXHEAD', 'RANDPOS', 'RAWRNG', 'FROMEND', 'FRONT', 'LV', 'VIA', 'NEW', 'TTLOF', 'POSOF', 'RES', 'RESNODE',
             'STALE', 'MAYALIAS', 'PARAM', 'OTHER', 'PERMAT', 'AUXHEADNODE', 'AUXNODE')


def ent_repr(kind, arg, subst, counter):
    """canonical, numbering-independent rendering of an entity (its argument may itself be an entity key)"""
    if kind in ('RANDPOS', 'RAWRNG') and isinstance(arg, int):
        a = show(canon(('rng', arg), subst, counter))
    elif kind in ('NEW', 'RES', 'RESNODE') and isinstance(arg, int):
        a = show(canon(('res', arg), subst, counter))
    elif isinstance(arg, tuple) and arg and isinstance(arg[0], str) and arg[0] in ENT_KINDS:
        a = ent_repr(arg[0], arg[1] if len(arg) > 1 else None, subst, counter)
    elif isinstance(arg, tuple) and arg and isinstance(arg[0], tuple):
        a = tuple(ent_repr(x[0], x[1] if len(x) > 1 else None, subst, counter) if isinstance(x, tuple) and x and isinstance(x[0], str) and x[0] in ENT_KINDS else x for x in arg)
    elif isinstance(arg, tuple):
        a = show(canon(arg, subst, counter))
    else:
        a = arg
    return (kind, str(a))


def body_summary(b, roles, subst):
    seg = b.seg
    counter = {}
    conds = []
    for kind, args, truth, site, raw, rawtruth in seg.conds:
        if kind in ('IT_AT_BEGIN', 'IT_AT_END') or (kind == 'OTHER' and root_of(raw)[0] in ('param', 'local', 'other')):
            continue
        if kind in ('VALID_IT', 'SID_RANGE', 'BACKPTR_SELF', 'TRUE', 'RNG_RANGE', 'LV_AT_ORDER_END'):
            continue        # decided by the representation invariant: not a decision of the algorithm
        if kind in ('NONEMPTY', 'AUX_NONEMPTY') and (truth is True or roles.kind == 'maplist'):
            continue        # implied by (or irrelevant next to) the presence decision; ut_*: part of the purge prologue
        if kind == 'EXPIRED' and isinstance(args[0], Ent) and args[0].kind == 'LV':
            continue
        if kind == 'EXPIRED' and roles.kind == 'maplist' and isinstance(args[0], Ent) and args[0].kind in ('FRONT', 'AUXHEAD', 'AUXHEADNODE') \
                and (args[0].epoch or 0) == 0:
            continue        # ut_*: "is the oldest entry still alive?" at the top of the purge prologue
        if kind == 'OTHER':
            conds.append((kind, truth, show(canon(raw, subst, counter))))
        else:
            reps = []
            for a in args:
                if isinstance(a, Ent):
                    reps.append('%s(%s)' % (a.kind, show(canon(a.arg, subst, counter)) if isinstance(a.arg, tuple) and a.arg and isinstance(a.arg[0], str) and a.arg[0] in ('p', 'ld', 'fld', 'elem', 'get', 'deref') else (a.arg if not isinstance(a.arg, (tuple, int)) else '')))
                elif isinstance(a, tuple) and a and a[0] in ('now', 'ld', 'p', 'fld', 'q', 'adv'):
                    reps.append(show(canon(a, subst, counter)))
                elif isinstance(a, (str,)):
                    reps.append(a)
            conds.append((kind, truth, ','.join(reps)))
    effs = []
    moved_back = [x for x in ops.body_effects(b, roles) if x.kind == 'AUX_MOVE']
    last_back = {}
    for e in ops.body_effects(b, roles):
        if roles.kind == 'maplist' and e.kind == 'BACKPTR' and moved_back and isinstance(e.val, tuple) and e.val[:2] == ('adv', -1) \
                and len(e.val) > 2 and isinstance(e.val[2], tuple) and e.val[2][:2] in (('q', 'end'), ('q', 'cend')) \
                and any(isinstance(getattr(mv, 'ent', None), Ent) and isinstance(e.ent, Ent) and mv.ent.key() == e.ent.key() for mv in moved_back):
            # `m_ttl_position = std::prev(m_ttl_list.end())` right after the entry's own node was spliced to the back: the iterator the
            # entry already holds names that node (splice keeps iterators valid), the store changes nothing
            continue
        d = {}
        if e.kind == 'AUX_ADD' and getattr(e, 'how', '') in ('emplace_back', 'push_back', 'emplace', 'insert'):
            last_back[e.aux] = getattr(e, 'res', None)
        elif e.kind in ('AUX_DEL', 'AUX_MOVE', 'AUX_OP', 'AUX_ERASE_RANGE'):
            last_back.pop(getattr(e, 'aux', None), None)
        for k, v in sorted(e.__dict__.items()):
            if k in ('site', 'kind', 'loc'):
                continue
            if e.kind == 'BACKPTR' and k == 'val' and isinstance(v, tuple) and v[:2] == ('adv', -1) and len(v) > 2 and isinstance(v[2], tuple) \
                    and v[2][:2] in (('q', 'end'), ('q', 'cend')) and len(v[2]) > 2 and isinstance(v[2][2], tuple) and v[2][2][:1] == ('fld',) \
                    and last_back.get(v[2][2][2]) is not None:
                v = last_back[v[2][2][2]]          # std::prev(l.end()) right after l.emplace_back(...): the node just appended
            if isinstance(v, Ent):
                d[k] = ent_repr(v.kind, v.arg, subst, counter)
            elif isinstance(v, tuple):
                d[k] = show(canon(v, subst, counter))
            else:
                d[k] = v
        effs.append((e.kind, tuple(sorted((k, str(v)) for k, v in d.items()))))
    out = outcome(b, roles)
    if out is not None and isinstance(out, tuple) and out and out[0] in ('ctor', 'global') and empty_result(out):
        ys = ['<absent>']            # {}, std::nullopt, optional<T>{} ...
    else:
        ys = [show(canon(out, subst, counter))] if out is not None else []
    return (tuple(conds), tuple(effs), tuple(ys))


def empty_result(y):
    """the 'absent' answer of a lookup: an empty optional however it is spelled ({}, std::nullopt, optional<T>{}) or false"""
    from symex import opt_content
    return y == ('bool', False) or opt_content(y) == (False, None) or (isinstance(y, tuple) and y[0] == 'ctor' and not y[2])


def out_iterator_param(seg, it):
    """is `it` (the current value of) a by-value parameter of the method that is neither of the two iterators delimiting the input?"""
    name = None
    if isinstance(it, tuple) and it[:1] == ('lv',) and len(it) > 1:
        name = it[1]
    elif isinstance(it, tuple) and it[:1] == ('p',):
        name = it[1]
    elif is_ld(it) and isinstance(it[2], tuple) and it[2][:1] in (('p',), ('lv',)):
        name = it[2][1]
    if name is None:
        return False
    name = str(name).lstrip('$')
    return name not in ('first', 'last', 'begin', 'end') and ('out' in name or 'dest' in name or 'result' in name)


def deliveries(seg):
    """(key, value, effect) for every answer a range-lookup iteration hands to the caller: output.emplace_back(k, r) /
    push_back(pair) (the pair's second possibly assigned afterwards through the reference emplace_back returned), or a store into
    the caller's own range element"""
    out = []
    vf = getattr(seg.L.r, 'value', None)

    def as_optional(v):
        # emplace_back(key, stored_value): the pair's optional is constructed from the value (implicit conversion)
        if vf and is_ld(v) and isinstance(v[2], tuple) and len(v[2]) == 3 and v[2][0] == 'fld' and v[2][2] == vf:
            return ('ctor', 'std::optional<value_type>', (v,))
        return v
    for e in seg.effects:
        if e.kind == 'OUT_CALL' and e.name in ('emplace_back', 'push_back') and len(e.args) == 2:
            out.append([e.args[0], as_optional(e.args[1]), e, getattr(e, 'res', None)])
        elif e.kind == 'OUT_WR' and isinstance(e.loc, tuple) and e.loc[0] == 'deref' and isinstance(e.val, tuple) and e.val[:1] == ('pair',) \
                and len(e.val) == 3 and out_iterator_param(seg, e.loc[1]):
            # `*out++ = pair{key, r}` through an output iterator the caller handed in: the answer is appended like emplace_back(key, r)
            e.via_out_iterator = True
            out.append([e.val[1], as_optional(e.val[2]), e, None])
        elif e.kind == 'OUT_WR' and not (isinstance(e.loc, tuple) and e.loc[0] == 'p'):
            loc = e.loc
            hit = None
            if isinstance(loc, tuple) and loc[0] == 'fld' and loc[2] == 'second':
                hit = next((d for d in out if d[3] is not None and loc[1] == d[3]), None)
            if hit is not None:
                hit[1] = as_optional(e.val)            # slot.second = r  on the element just appended
            else:
                out.append([None, as_optional(e.val), e, None])
    return [tuple(d[:3]) for d in out]


def outcome(b, roles):
    """what the operation reports for this element: the single form's return value / the range form's delivered result or tally step"""
    seg = b.seg
    k = ops.kind_of(b.method)
    if b.in_loop is None:
        d = seg.decided(seg.ret) if isinstance(seg.ret, tuple) and seg.ret and seg.ret[0] in ('cmp', 'not', 'pred', 'hasval') else None
        return ('bool', d) if d is not None else seg.ret
    if k == 'FIND':
        d = deliveries(seg)
        return d[-1][1] if d else None
    from rules_seq import tally_info
    name, incs = tally_info(b.top, b)
    n = len([e for e in incs if e.how != 'decl'])
    return ('bool', n > 0)


def subject_subst(b, m):
    """terms that denote the subject key / value / ttl of this body"""
    out = []
    seg = b.seg
    key = None
    for c in seg.conds_of('PRESENT'):
        key = c[1][0]
    if key is not None:
        out.append((key, 'K'))
        # value: sibling field of the same element
        if isinstance(key, tuple) and key[0] == 'ld' and key[2][0] == 'fld' and key[2][2] == 'first':
            out.append((('ld', key[1], ('fld', key[2][1], 'second')), 'V'))
            out.append((('fld', key[2][1], 'second'), 'V'))
        if isinstance(key, tuple) and key[0] == 'ld' and key[2][0] == 'get':
            base = key[2][2]
            for i, nm in ((0, 'T'), (1, 'K'), (2, 'V')):
                out.append((('ld', key[1], ('get', i, base)), nm))
                out.append((('get', i, base), nm))
        if key == ('p', 'key'):
            out.append((('p', 'value'), 'V'))
            out.append((('p', 'ttl'), 'T'))
    return out


def default_enumerator(p):
    """name of the enumerator a parameter defaults to (`peek peek = peek::no`), None without a (visible) default"""
    def walk(n):
        if isinstance(n, dict):
            if n.get('kind') == 'DeclRefExpr' and (n.get('referencedDecl') or {}).get('kind') == 'EnumConstantDecl':
                return n['referencedDecl'].get('name')
            for c in n.get('inner', []) or []:
                r = walk(c)
                if r is not None:
                    return r
        return None
    for c in p.get('inner', []) or []:
        r = walk(c)
        if r is not None:
            return r
    return None


def check_sibling_defaults(res, prop, cm, m, single):
    """R-SIB-DEFAULTS: a call that leaves the mode arguments out means the same for the range form and for the single-key form:
    the `allow` / `peek` parameters of both default to the same enumerator"""
    for enum in ('cappuccino::allow', 'cappuccino::peek'):
        pm = [p for p in m.params if enum in (p.get('type', {}).get('qualType', '') or '')]
        ps = [p for p in single.params if enum in (p.get('type', {}).get('qualType', '') or '')]
        if len(pm) != 1 or len(ps) != 1:
            continue
        dm, ds = default_enumerator(pm[0]), default_enumerator(ps[0])
        if dm is None or ds is None:
            continue
        res.ob('R-SIB-DEFAULTS', ok=dm == ds)
        if dm != ds:
            loc = m.loc and (m.loc[0], m.loc[1], '')
            V(res, prop, 'R-SIB-DEFAULTS', cm, m.key(), 'default %s differs from the single-key form' % enum.split('::')[1], loc,
              '%s defaults %s to %s::%s, %s defaults it to %s::%s: the same call without the argument means two different operations'
              % (m.key(), pm[0].get('name'), enum.split('::')[1], dm, single.key(), enum.split('::')[1], ds))


def emptied_by_purge(top, m, roles):
    """ut_map / ut_set range lookup: the path established, before its purge, that the ttl list is empty or that its LAST node (the
    latest deadline, C16) has expired at the very instant the purge is given: the purge (C17: it removes every expired entry) leaves
    nothing stored, so every lookup of the range misses and the keys may be answered by a loop that touches no container state (the
    engine folds such a loop into a `range` event).  The oldest node having expired says nothing of the kind."""
    if roles.kind != 'maplist' or ops.kind_of(m) != 'FIND':
        return False
    pl = ops.purge_loops(top)
    if not pl or any(i not in pl for i in range(len(top.loops))):
        return False
    if [e for e in top.state_effects() if e.kind != 'AUX_ERASE_RANGE']:
        return False
    if not any(e[0] == 'range' and isinstance(e[1], tuple) and root_of(e[1])[0] == 'param' for e in top.path.trace):
        return False
    nows = set()
    for i in pl:
        for s2 in top.loops[i][1]:
            for c in s2.conds_of('EXPIRED'):
                nows.add(c[1][1])
    for c in top.conds:
        if c[0] == 'AUX_NONEMPTY' and c[2] is False and isinstance(c[4], tuple) and c[4][:1] == ('q',) and c[4][-1] == 0:
            return True
        if c[0] == 'EXPIRED' and c[2] is True and isinstance(c[1][0], Ent) and c[1][0].kind == 'FROMEND' and c[1][0].arg == -1 \
                and (c[1][0].epoch or 0) == 0 and len(nows) == 1 and c[1][1] in nows:
            return True
    return False


def decision_equivalent(rs, ss):
    """are the two sets of path summaries (conds, effects, answer) the same function of the predicates they test?  Every total
    valuation of the predicates that occur on either side selects the paths whose tests agree with it; a valuation that selects no
    path on one side is one that side's pruning found contradictory (a total, deterministic body takes some path on every input),
    for all the others the selected (effects, answer) sets must be equal."""
    import itertools
    atoms = sorted(set((c[0], c[2]) for sm in (set(rs) | set(ss)) for c in sm[0]))
    if len(atoms) > 14:
        return False
    for bits in itertools.product((True, False), repeat=len(atoms)):
        asg = dict(zip(atoms, bits))
        ra = set((sm[1], sm[2]) for sm in rs if all(asg[(c[0], c[2])] == bool(c[1]) for c in sm[0]))
        sa = set((sm[1], sm[2]) for sm in ss if all(asg[(c[0], c[2])] == bool(c[1]) for c in sm[0]))
        if not ra or not sa:
            continue
        if ra != sa:
            return False
    return True


def rule_c18(an, res):
    prop = 'C18'
    for cm, roles in an.classes():
        methods = list(an.entry_points(cm))
        by_name = {}
        for m in methods:
            by_name.setdefault(m.name, []).append(m)
        for m in methods:
            if ops.kind_of(m) not in ('INSERT', 'ERASE', 'FIND'):
                continue
            is_range = m.name in SINGLE_OF or any(p.get('name') in ('begin', 'end') for p in m.params)
            if not is_range:
                continue
            sname = SINGLE_OF.get(m.name, m.name)
            singles = [x for x in by_name.get(sname, []) if not any(p.get('name') in ('begin', 'end') for p in x.params) and x.name not in SINGLE_OF]
            if not singles:
                res.incomplete.append('G-ANCHOR: no single-key sibling for %s::%s' % (cm.name, m.key()))
                continue
            single = singles[0]
            check_sibling_defaults(res, prop, cm, m, single)
            ssum = set()
            for top in method_segments(an, cm, roles, single, res):
                for b in ops.find_bodies(top, single):
                    ssum.add(body_summary(b, roles, subject_subst(b, single)))
            tag = 'reached from %s::%s' % (cm.name, single.key())
            if any(('G-UNKNOWN' in x and x.endswith(tag)) for x in list(an.incomplete) + list(res.incomplete)):
                # the single-key form contains a construct the engine has no semantics for: nothing to compare the range form with
                msg = 'G-UNKNOWN single-key sibling %s is not fully modelled reached from %s::%s' % (single.key(), cm.name, m.key())
                if msg not in res.incomplete:
                    res.incomplete.append(msg)
                continue
            for top in method_segments(an, cm, roles, m, res):
                if ops.empty_range_exit(top, m) or (not ops.find_bodies(top, m) and ops.empty_container_exit(top, m)):
                    res.ob('R-SIB-BODY', ok=True)       # empty range (or erase_range on an empty container): no single operation to compare with
                    continue
                bodies = ops.find_bodies(top, m)
                if not bodies and emptied_by_purge(top, m, roles):
                    res.ob('R-SIB-BODY', ok=True)
                    msg = ('%s::%s: a path on which the purge leaves nothing stored (the ttl list was empty, or its newest entry had '
                           'expired at the instant the purge uses) answers the range without consulting the index; relies on the deadline '
                           'order (C16) and on the purge removing every expired entry (C17), both checked on this tree' % (cm.name, m.key()))
                    if msg not in res.assumptions:
                        res.assumptions.append(msg)
                    continue
                from rules_pos import carried_destination, carried_head_invariant
                cd = [b for b in bodies if carried_destination(b, b.seg.effs('MOVE'))]
                proven = {}
                for b in list(cd):
                    terms = carried_head_invariant(b, roles)
                    if terms:
                        proven[id(b)] = terms        # the variable is l.begin() whenever an iteration starts: read it as that
                        cd.remove(b)
                if cd:
                    msg = ('G-UNKNOWN splice destination held in an iterator variable that is carried from one range element to the next '
                           '(a loop invariant about that variable would be needed) in %s reached from %s::%s'
                           % (show_site(cd[0].seg.effs('MOVE')[0].site), cm.name, m.key()))
                    if msg not in res.incomplete:
                        res.incomplete.append(msg)
                    continue
                rsum = set()
                for b in bodies:
                    swapped = []
                    if id(b) in proven:
                        for mv in b.seg.effs('MOVE'):
                            if mv.dest in proven[id(b)] and mv is b.seg.effs('MOVE')[0]:
                                swapped.append((mv, mv.dest))
                                mv.dest = ('q', 'begin', ('fld', ('this',), roles.order), (), 0)
                    try:
                        rsum.add(body_summary(b, roles, subject_subst(b, m)))
                    finally:
                        for mv, old_dest in swapped:
                            mv.dest = old_dest
                    check_plumbing(res, prop, cm, roles, m, top, b)
                # a decision about the call's own parameters taken once before the loop (const auto mode = peek ? ... : ...) splits the range
                # method into top-level paths; each is compared with the single form's paths that agree with that decision
                decided = {}
                for c in top.conds:
                    if c[0] in ('PEEK', 'UPD_OK', 'INS_OK'):
                        decided.setdefault(c[0], c[2])
                want = set()
                for sm in ssum:
                    agree = all(not (cc[0] == kd and cc[1] != tr) for cc in sm[0] for kd, tr in decided.items())
                    if agree:
                        want.add(sm)
                ok = rsum == (want if decided else ssum)
                ssum_cmp = want if decided else ssum
                if not ok and rsum and ssum_cmp and decision_equivalent(rsum, ssum_cmp):
                    # the same decisions taken in another order (or one of them taken although the others already settle the outcome):
                    # the two forms are the same function from the tested predicates to (effects, answer)
                    ok = True
                res.ob('R-SIB-BODY', ok=ok)
                res.sample(dict(container=cm.name, range=m.key(), single=single.key(), body_paths=len(rsum), equal=ok), cap=14)
                if not ok:
                    only_r = sorted(rsum - ssum_cmp, key=str)
                    only_s = sorted(ssum_cmp - rsum, key=str)
                    d = describe_diff(only_r, only_s)
                    site = site_of_seg(bodies[0].seg, m) if bodies else site_of_seg(top, m)
                    V(res, prop, 'R-SIB-BODY', cm, m.key(), 'loop body differs from %s: %s' % (single.key(), d[0]), site,
                      'per-element behaviour of %s is not that of %s; %s' % (m.key(), single.key(), d[1]))
                check_range_exits(res, prop, cm, roles, m, top, bodies)
                for lp, s2 in ops.bodiless_iterations(top):
                    res.ob('R-SIB-BODY', ok=False)
                    V(res, prop, 'R-SIB-BODY', cm, m.key(), 'a range element is handled without performing the single-key operation',
                      site_of_seg(s2, m), 'iteration path [%s] of %s never consults the index: its effects %s / outputs are not those of %s'
                      % (' '.join(s2.valuation()), m.key(), [e.kind for e in s2.state_effects()][:4], single.key()))
                check_once(res, prop, cm, roles, m, single, top, an)


def check_range_exits(res, prop, cm, roles, m, top, bodies):
    """the per-element loop of a range method ends because the range is exhausted - or, for erase, because nothing is left to erase (the
    container is empty, so every remaining key is a miss).  An extra conjunct in the loop condition that can end it earlier leaves
    elements of the range unprocessed."""
    from symex import root_of
    loops = set(id(b.in_loop) for b in bodies if b.in_loop is not None)
    # an iteration that leaves the loop (`break` / `return`) before it has looked its element up: only when nothing is left to erase
    body_segs = set(id(b.seg) for b in bodies)
    for lp, segs in top.loops:
        if id(lp) not in loops:
            continue
        for s2 in segs:
            if id(s2) in body_segs or s2.status not in ('break', 'ret') or s2.conds_of('PRESENT') or not lift.feasible(s2)[0]:
                continue
            fine = ops.kind_of(m) == 'ERASE' and any(c[0] == 'NONEMPTY' and c[2] is False for c in s2.conds) and not s2.state_effects()
            if not fine and not s2.state_effects():
                # `for (;;) { if (current == last) break; ... }`: the exit on the exhausted range written as a break
                for c in s2.conds:
                    raw = c[4]
                    if c[0] in ('OTHER', 'LV_EQ') and isinstance(raw, tuple) and len(raw) == 4 and raw[0] == 'cmp' and raw[1] in ('==', '!=') and all(
                            isinstance(x, tuple) and x and (x[0] in ('lv', 'p') or (x[0] == 'q' and x[1] in ('end', 'cend', 'size') and root_of(x[2])[0] == 'param'))
                            for x in (raw[2], raw[3])) and any(isinstance(x, tuple) and x[:1] == ('lv',) for x in (raw[2], raw[3])) \
                            and not any(is_ld(x) for x in (raw[2], raw[3])):
                        rt = c[5] if len(c) > 5 and c[5] is not None else c[2]
                        if bool(rt) == (raw[1] == '=='):
                            fine = True
            if not fine and ops.kind_of(m) == 'ERASE' and not s2.state_effects() and roles.counter:
                # `if (deleted == stored_on_entry) break;`: the returned tally (stepped exactly once per removal, R-ERASE-TRUTH) has
                # reached a snapshot of the element counter taken BEFORE the loop - everything that was stored is gone
                tv = ops.tally_var(top.ret)
                for c in s2.conds:
                    raw = c[4]
                    if c[0] == 'OTHER' and isinstance(raw, tuple) and len(raw) == 4 and raw[0] == 'cmp' and raw[1] == '==' and bool(c[5] if len(c) > 5 and c[5] is not None else c[2]):
                        for a, b2 in ((raw[2], raw[3]), (raw[3], raw[2])):
                            if tv is not None and isinstance(a, tuple) and a[:1] == ('lv',) and a[1] == tv[0] and is_ld(b2) \
                                    and b2[2] == THIS(roles.counter) and b2[1] < 0:
                                fine = True
            res.ob('R-SIB-ONCE', ok=fine)
            if not fine:
                V(res, prop, 'R-SIB-ONCE', cm, m.key(), 'the range loop can stop before the end of the range', site_of_seg(s2, m),
                  'iteration [%s] leaves the loop (%s) without handling its element: the remaining elements of the range stay unprocessed'
                  % (' '.join(s2.valuation()), s2.status))
    for lp, segs in top.loops:
        if id(lp) not in loops or lp.kind == 'range':
            continue
        for ex in top.loop_exits.get(id(lp), []):
            if not lift.feasible(ex)[0]:
                continue
            bad = None
            exhausted = False
            for c in ex.conds:
                raw = c[4]
                rng_cmp = isinstance(raw, tuple) and len(raw) == 4 and raw[0] == 'cmp' and all(
                    isinstance(x, tuple) and x and (x[0] in ('lv', 'p') or (x[0] == 'q' and x[1] in ('end', 'cend', 'size') and root_of(x[2])[0] == 'param')
                                                   or (x[0] == 'q' and x[1] in ('size',) and isinstance(x[2], tuple) and x[2][:1] == ('var',)))
                    for x in (raw[2], raw[3])) and any(isinstance(x, tuple) and x[:1] == ('lv',) and (len(x) < 5 or x[4] == 'param' or True) for x in (raw[2], raw[3]))
                if c[0] in ('OTHER', 'LV_EQ') and rng_cmp and not any(is_ld(x) for x in (raw[2], raw[3])):
                    if bool(c[5]) != (raw[1] in ('!=', '<')):
                        exhausted = True
                    continue
                if c[0] == 'NONEMPTY' and c[2] is False and ops.kind_of(m) == 'ERASE':
                    exhausted = True       # nothing left to erase
                    continue
                if c[0] in ('TRUE', 'PEEK', 'UPD_OK', 'INS_OK'):
                    continue
                bad = c
            ok = bad is None and exhausted
            res.ob('R-SIB-ONCE', ok=ok)
            if not ok:
                V(res, prop, 'R-SIB-ONCE', cm, m.key(), 'the range loop can stop before the end of the range', bad[3] if bad else site_of_seg(ex, m),
                  'loop exit [%s]: ending the loop on this condition leaves the remaining elements of the range unprocessed' % ' '.join(ex.valuation()))


def describe_diff(only_r, only_s):
    def brief(s):
        conds, effs, ys = s
        return '[%s] -> %s%s' % (' '.join(('' if t else '!') + k for k, t, _ in conds), ','.join(e[0] for e in effs) or 'no effect',
                                 ' yields ' + ys[0] if ys else '')
    a = brief(only_r[0]) if only_r else None
    b = brief(only_s[0]) if only_s else None
    short = 'range-only path %s' % a.split(' yields')[0] if a else 'single-only path %s' % b.split(' yields')[0]
    short = re.sub(r'\$\w+|#\d+', '', short)[:110]
    return short, 'paths only in the range form: %s; only in the single form: %s' % ([brief(x) for x in only_r][:2], [brief(x) for x in only_s][:2])


def from_pointer(dv, rt):
    """the lookup helper returned a pointer to the stored value (`return &e.m_value;` / nullptr) and the caller delivered a copy of
    what it points to (or the empty answer for nullptr)"""
    if rt in (('int', 0), ('global', 'nullptr'), ('nullptr',)) or (isinstance(rt, tuple) and rt and rt[0] == 'cast' and rt[-1] == ('int', 0)):
        return empty_result(dv)
    if isinstance(rt, tuple) and len(rt) == 2 and rt[0] == 'addr':
        loc = rt[1]
        v = dv
        if isinstance(v, tuple) and len(v) == 3 and v[0] == 'ctor' and len(v[2]) == 1:
            v = v[2][0]
        return is_ld(v) and v[2] == loc
    return False


def check_plumbing(res, prop, cm, roles, m, top, b):
    seg = b.seg
    if b.in_loop is None:
        return
    val = ' '.join(seg.valuation())
    ok = seg.status == 'continue'
    res.ob('R-SIB-PLUMB', ok=ok)
    if not ok:
        V(res, prop, 'R-SIB-PLUMB', cm, b.where, 'range loop exits early (%s) instead of visiting every element' % seg.status, site_of_seg(seg, m), val)
    k = ops.kind_of(m)
    key = next((c[1][0] for c in seg.conds_of('PRESENT')), None)
    if k == 'FIND':
        outs = [e for e in seg.effects if e.kind in ('OUT_CALL', 'OUT_WR')]
        outs = [e for e in outs if not (e.kind == 'OUT_WR' and isinstance(e.loc, tuple) and e.loc[0] in ('p',) )]
        res_terms = [e[1] for e in seg.events if e[0] == 'ret']
        good = False
        dl = deliveries(seg)
        if len(dl) == 1:
            dk, dv, o = dl[0]
            # what an inlined lookup helper returned is what gets delivered; with the lookup written out in the loop itself there
            # is no such return and the delivered value is judged by R-SIB-BODY (same outcome as the single form) and C01
            rts = [r for r in res_terms if r != ('void',) and r is not None] or res_terms
            same_val = (not rts) or any(dv == r or (empty_result(dv) and empty_result(r)) or from_pointer(dv, r) for r in rts[-3:])
            if o.kind == 'OUT_CALL' or getattr(o, 'via_out_iterator', False):
                good = dk == key and same_val
            elif o.kind == 'OUT_WR':
                # the element's own optional / bool, same element as the key
                good = same_val and same_element(o.loc, key)
        res.ob('R-SIB-PLUMB', ok=good)
        if not good:
            V(res, prop, 'R-SIB-PLUMB', cm, b.where, 'lookup result is not delivered once, paired with its own key', first_site(outs, seg, m),
              'path [%s] outputs: %s' % (val, [repr(o) for o in outs][:3]))
    else:
        from rules_seq import tally_info
        name, incs = tally_info(b.top, b)
        if name is None and isinstance(b.top.ret, tuple) and any(isinstance(t, tuple) and len(t) > 2 and t[0] == 'q' and t[1] == 'size'
                                                                  for t in lift.subterms(b.top.ret)) \
                and any(e[0] == 'enter' and '::~' in str(e[1]) for e in b.top.events):
            msg = ('G-UNKNOWN %s returns a count computed from container sizes (%s), not a per-element tally in %s reached from %s::%s'
                   % (m.name, show(b.top.ret)[:80], show_site(site_of_seg(b.top, m)), cm.name, m.key()))
            if msg not in res.incomplete:
                res.incomplete.append(msg)
            return
        effs = ops.body_effects(b, roles)
        success = (actual_class(effs) in ('BIND', 'UPDATE')) if k == 'INSERT' else bool(seg.effs('UNBIND'))
        n = len([e for e in incs if e.how != 'decl' and ops.is_increment(e, name)])
        bad = len([e for e in incs if e.how != 'decl']) - n
        ok = name is not None and bad == 0 and n == (1 if success else 0)
        res.ob('R-SIB-PLUMB', ok=ok)
        if not ok:
            V(res, prop, 'R-SIB-PLUMB', cm, b.where, 'returned count changes by %d on a path that %s' % (n, 'succeeds' if success else 'does not succeed'),
              site_of_seg(seg, m), 'path [%s]' % val)


def same_element(loc, key):
    """loc is the value field of the element whose key field is `key`"""
    kl = key[2] if is_ld(key) else key
    if isinstance(loc, tuple) and isinstance(kl, tuple):
        if loc[0] == 'fld' and kl[0] == 'fld' and loc[1] == kl[1] and kl[2] == 'first' and loc[2] == 'second':
            return True
        if loc[0] == 'get' and kl[0] == 'get' and loc[2] == kl[2]:
            return True
    return False


def check_once(res, prop, cm, roles, m, single, top, an):
    """one clock sample, taken outside the loop, the same prefix as the single form"""
    inner_clocks = []
    for lp, segs in top.loops:
        for s in segs:
            for x in s.all_segments():
                inner_clocks += [e for e in x.effects if e.kind == 'CLOCK']
    n_top = len([e for e in top.effects if e.kind == 'CLOCK'])
    stops = [method_segments(an, cm, roles, single)]
    n_single = max((len([e for e in t.effects if e.kind == 'CLOCK']) for t in stops[0]), default=0)
    ok = not inner_clocks and n_top == n_single
    res.ob('R-SIB-ONCE', ok=ok)
    if not ok:
        site = inner_clocks[0].site if inner_clocks else site_of_seg(top, m)
        V(res, prop, 'R-SIB-ONCE', cm, m.key(), 'clock sampled %s' % ('inside the range loop' if inner_clocks else '%d times (single form: %d)' % (n_top, n_single)),
          site, 'a range operation acts at one instant: one clock sample outside the loop')
    # the elements are applied in iteration order: the range handed in is not re-ordered / filtered first
    for e in top.effects:
        if e.kind == 'OUT_CALL' and str(e.name).startswith('algo:'):
            res.ob('R-SIB-ONCE', ok=False)
            V(res, prop, 'R-SIB-ONCE', cm, m.key(), 'the input range is re-arranged (%s) before it is applied' % e.name[5:], e.site,
              'range operations act like the single operations applied to each element in iteration order; %s changes that order / the elements' % e.name[5:])
    # R-SIB-PREFIX: outside its per-element loop a range method changes nothing (ut_*: apart from the purge the single form also runs)
    pl = set(ops.purge_loops(top)) if roles.kind == 'maplist' else set()
    extra = [e for e in top.state_effects() if not (roles.kind == 'maplist' and e.kind == 'AUX_ERASE_RANGE')]
    where_extra = extra[0].site if extra else None
    for i, (lp, segs) in enumerate(top.loops):
        if i in pl:
            continue
        has_body = any(ops.find_bodies(s2, m) for s2 in segs)
        if has_body:
            continue
        for s2 in segs:
            for e in s2.state_effects():
                extra.append(e)
                where_extra = where_extra or e.site
    okp = not extra
    res.ob('R-SIB-PREFIX', ok=okp)
    if not okp:
        V(res, prop, 'R-SIB-PREFIX', cm, m.key(), 'range method changes state outside its per-element loop: %s' % ','.join(sorted(set(e.kind for e in extra)))[:80],
          where_extra, 'the single-key form does nothing of the kind before / after its body: %s' % [repr(e) for e in extra][:3])
    # the returned count starts at 0 and is only stepped inside the loop
    if ops.kind_of(m) in ('INSERT', 'ERASE') and any(lp2 for lp2, sg in top.loops):
        var = ops.tally_var(top.ret)
        init = ops.local_writes(top, var, decl=True) if var else []
        post = ops.local_writes(top, var, decl=False) if var else []
        okt = var is not None and len(init) == 1 and init[0].val == ('int', 0) and not post
        res.ob('R-SIB-PLUMB', ok=okt)
        if not okt:
            V(res, prop, 'R-SIB-PLUMB', cm, m.key(), 'returned count does not start at 0 / is adjusted outside the loop', site_of_seg(top, m),
              'returns %s; initialisation %s; writes outside the loop %s' % (show(top.ret) if top.ret is not None else None,
                                                                            [show(e.val) for e in init], [show(e.val) for e in post]))
    # the whole loop inside one critical section (the range acts at one instant also for other threads)
    import locks
    accs, facts = locks.collect(an, cm, roles, m)
    okl = not facts['lock_in_loop'] and facts['max_regions'] <= 1
    res.ob('R-SIB-ONCE', ok=okl)
    if not okl:
        e = facts['lock_in_loop'][0] if facts['lock_in_loop'] else None
        V(res, prop, 'R-SIB-ONCE', cm, m.key(), 'lock taken per element instead of once around the whole range',
          e[2] if e else site_of_seg(top, m), 'other threads can observe / interleave with a partially applied range')
    # fifo-style forwarding: the loop runs over begin(range) .. end(range) of the same parameter
    rng_params = [p.get('name') for p in m.params if p.get('name') not in ('a', 'peek', 'begin', 'end', 'distance')]
    if m.name in SINGLE_OF and cm.name == 'fifo_cache' and rng_params:
        rp = ('p', rng_params[0])
        found_b = found_e = False
        for e in top.events:
            if e[0] == 'q' and e[1][2] == rp and e[1][1] in ('begin', 'cbegin'):
                found_b = True
            if e[0] == 'q' and e[1][2] == rp and e[1][1] in ('end', 'cend'):
                found_e = True
        ok = found_b and found_e
        res.ob('R-SIB-FWD', ok=ok)
        if not ok:
            V(res, prop, 'R-SIB-FWD', cm, m.key(), 'range overload does not forward begin()/end() of its range', site_of_seg(top, m), '')
    # ut_*: the range form purges first, like the single form (R-SIB-PREFIX)
    if roles.kind == 'maplist':
        from rules_seq import check_purge_first
        check_purge_first(res, prop, cm, roles, m, top)


# ---------------------------------------------------------------------------------------------- C01

GOOD_ENTS = ('FOUND', 'ATPART', 'BACK', 'AUXHEAD', 'RANDPOS', 'FROMEND', 'FRONT', 'LV', 'VIA', 'NEW', 'TTLOF', 'POSOF')


def rule_c01(an, res):
    prop = 'C01'
    for cm, roles in an.classes():
        L = lift.Lifter(roles)
        for m in an.entry_points(cm):
            k = ops.kind_of(m)
            if k in ('OBS', 'CFG', 'UNKNOWN'):
                continue
            for top in method_segments(an, cm, roles, m, res):
                if k == 'FIND':
                    for b in ops.find_bodies(top, m):
                        check_lookup(res, prop, cm, roles, m, b)
                if k == 'INSERT':
                    for b in ops.find_bodies(top, m):
                        check_bind_update(res, prop, cm, roles, m, b)
                check_splice_dest(res, prop, cm, roles, m, top)
                if k in ('INSERT', 'FIND', 'ERASE'):
                    for lp, s2 in ops.bodiless_iterations(top):
                        res.ob('R-LOOKUP-PROV', ok=False)
                        V(res, prop, 'R-LOOKUP-PROV', cm, m.key(), 'a range element is answered / handled without consulting the index for it',
                          site_of_seg(s2, m), 'iteration path [%s]' % ' '.join(s2.valuation()))
                if k in ('INSERT', 'FIND', 'ERASE') and not ops.find_bodies(top, m) and not top.loops and not ops.empty_range_exit(top, m) and not ops.empty_container_exit(top, m):
                    res.ob('R-LOOKUP-PROV', ok=False)
                    V(res, prop, 'R-LOOKUP-PROV', cm, m.key(), 'path does not consult the index for its key', site_of_seg(top, m), '')
                for seg in top.all_segments():
                    okf, _ = lift.feasible(seg)
                    if not okf:
                        continue
                    check_entities(res, prop, cm, roles, m, seg)
                    from rules_pos import check_fifo_unbind
                    check_fifo_unbind(res, prop, cm, roles, m, seg, an)
                    from rules_seq import check_bind_dominated
                    check_bind_dominated(res, prop, cm, roles, m, seg)
                    if roles.name == 'rr_cache' and seg.effs('PERM_WR'):
                        from rules_policy import check_perm_backptr
                        check_perm_backptr(res, prop, cm, roles, m, seg)
                    if roles.name == 'rr_cache' and seg.effs('UNBIND'):
                        from rules_policy import check_rr_remove
                        check_rr_remove(res, prop, cm, roles, m, seg)
                    if roles.order is not None and k in ('INSERT', 'FIND', 'ERASE', 'CLEAN') and seg.effs('PART', 'BIND', 'UNBIND') and not has_partition_loops(seg):
                        sim = simulate(seg, roles)
                        bad = sim.integrity() if not sim.unknown else []
                        probs = [p for p in sim.problems if p[0] in ('BIND-OF-BOUND', 'UNBIND-OF-FREE', 'MOVES-PARTITION-NODE', 'CLAIM-UNDOMINATED')]
                        ok = not bad and not probs and not sim.unknown
                        res.ob('R-PARTITION-INTEGRITY', ok=ok)
                        if bad or probs:
                            msg = '; '.join(bad + [p[1] for p in probs])
                            V(res, prop, 'R-PARTITION-INTEGRITY', cm, where_of(m, seg), (bad + [p[0] for p in probs])[0].split(' (')[0].split(' %')[0],
                              first_site(seg.effs('MOVE', 'PART', 'BIND', 'UNBIND'), seg, m),
                              'after path [%s] the slot list is %s: %s (a live slot on the free side is handed to the next insert)' % (' '.join(seg.valuation()), sim.show(), msg))
                        elif sim.unknown:
                            V(res, prop, 'R-PARTITION-INTEGRITY', cm, where_of(m, seg), 'slot list shape not established',
                              first_site(seg.effs('MOVE', 'PART', 'BIND', 'UNBIND'), seg, m), '; '.join(sim.unknown[:3]))
        check_no_rehash(an, res, prop, cm, roles)
        check_ctor_shape(an, res, prop, cm, roles)


def check_splice_dest(res, prop, cm, roles, m, top):
    """R-SPLICE-DEST: in a partitioned slot list a used node may be spliced to begin(), to the partition, or before another used
    node - never to end(), which lies behind the free nodes unless the cache is full.  Destinations held in locals are traced to
    every value the local is given (declaration and loop assignments)."""
    if roles.part is None or roles.order is None:
        return
    order = THIS(roles.order)

    def is_end(v):
        if isinstance(v, tuple) and v[0] == 'q' and v[1] in ('end', 'cend') and v[2] == order:
            return True
        return False

    def local_values(seg, name):
        vals = []
        s = seg
        while s is not None:
            for e in s.effects:
                if e.kind == 'LOCAL' and isinstance(e.loc, tuple) and e.loc[0] == 'var' and e.loc[1] == name:
                    vals.append(e.val)
            if s.loop is not None and s.parent is not None:
                for lp, segs in s.parent.loops:
                    if lp is s.loop:
                        for s2 in segs:
                            for e in s2.effects:
                                if e.kind == 'LOCAL' and isinstance(e.loc, tuple) and e.loc[0] == 'var' and e.loc[1] == name:
                                    vals.append(e.val)
            s = s.parent
        return vals

    for seg in top.all_segments():
        for e in seg.effs('MOVE'):
            d = e.dest
            cands = [d]
            if isinstance(d, tuple) and d[0] == 'lv':
                cands = local_values(seg, d[1])
            bad = [v for v in cands if is_end(v)]
            full = seg.cond('FULL') is True
            ok = not bad or full
            res.ob('R-SPLICE-DEST', ok=ok)
            if not ok:
                V(res, prop, 'R-SPLICE-DEST', cm, where_of(m, seg), 'used node spliced to end() of the slot list (behind the free nodes)', e.site,
                  'path [%s]: destination %s can be %s; unless the cache is full that is behind the free slots, so the partition '
                  'later steps onto a live node' % (' '.join(seg.valuation()), show(d), show(bad[0])))


def has_partition_loops(seg):
    """loops nested in the segment that themselves bind / unbind / move the partition are analysed as their own segments"""
    for lp, segs in seg.loops:
        for s2 in segs:
            if s2.effs('PART', 'BIND', 'UNBIND', 'CNT'):
                return True
    return False


def subject_key_ok(key):
    """the looked-up key is the call's key parameter or the current range element (or its key field)"""
    t = key[2] if is_ld(key) else key
    if t == ('p', 'key'):
        return True
    r = root_of(t)
    return r[0] == 'param'


def check_lookup(res, prop, cm, roles, m, b):
    seg = b.seg
    present = seg.cond('PRESENT')
    key = next((c[1][0] for c in seg.conds_of('PRESENT')), None)
    val = ' '.join(seg.valuation())
    ok = subject_key_ok(key)
    res.ob('R-LOOKUP-PROV', ok=ok)
    if not ok:
        V(res, prop, 'R-LOOKUP-PROV', cm, b.where, 'index is consulted with something other than the call\'s key', site_of_seg(seg, m), 'looked up: %s' % show(key))
    vs = seg.effs('VAL')
    res.ob('R-LOOKUP-PROV', ok=not vs)
    if vs:
        moved = isinstance(vs[0].val, tuple) and vs[0].val and vs[0].val[0] == 'moved'
        V(res, prop, 'R-LOOKUP-PROV', cm, b.where, 'lookup %s a stored value' % ('moves out of' if moved else 'overwrites'), vs[0].site,
          'path [%s]: %r - later lookups of the key no longer report the value last written for it' % (val, vs[0]))
    y = outcome(b, roles)
    if y is None:
        # a range lookup whose per-element answer reaches neither the returned container nor the caller's element
        res.ob('R-LOOKUP-PROV', ok=False)
        V(res, prop, 'R-LOOKUP-PROV', cm, b.where, 'the element\'s lookup result is not delivered to the caller', site_of_seg(seg, m),
          'path [%s]: the answer for this element is neither appended to the output nor stored into the caller\'s range element '
          '(stored into a local copy?)' % val)
        return
    if not (isinstance(y, tuple) and y and y[0] in ('ctor', 'bool')):
        import os
        if os.environ.get('CAPCHECK_DEBUG_OUTCOME'):
            print('OUTCOME?', cm.name, b.where, show(y))
        return
    L = seg.L
    if not ops.named(m):
        # a lookup-like operation added later (contains / touch / find_into ...): what it returns on a live hit is its own business;
        # it must not answer "yes" / hand out a value for a key that is absent or whose entry has expired
        served = (y == ('bool', True)) or (y[0] == 'ctor' and typeclass(y[1]) == 'optional' and len(y[2]) >= 1)
        if present is True and cm.name in TTL_CACHES and served and found_expired(seg) is None:
            res.ob('R-LOOKUP-PROV', ok=False)
            V(res, prop, 'R-LOOKUP-PROV', cm, b.where, 'positive answer without establishing that the write has not expired', site_of_seg(seg, m),
              'path [%s] yields %s but never compares the entry\'s expiry with the call\'s clock sample' % (val, show(y)))
            return
        dead = present is not True or (cm.name in TTL_CACHES and found_expired(seg) is True)
        res.ob('R-LOOKUP-PROV', ok=not (dead and served))
        if dead and served:
            V(res, prop, 'R-LOOKUP-PROV', cm, b.where, 'positive answer for a key that is absent or expired', site_of_seg(seg, m),
              'path [%s] yields %s' % (val, show(y)))
        return
    if present is True:
        live = not (cm.name in TTL_CACHES and found_expired(seg) is True)
        if cm.name in TTL_CACHES and found_expired(seg) is None and y[0] == 'ctor' and y[2]:
            res.ob('R-LOOKUP-PROV', ok=False)
            V(res, prop, 'R-LOOKUP-PROV', cm, b.where, 'value reported without establishing that the write has not expired', site_of_seg(seg, m),
              'path [%s] yields %s but never compares the entry\'s expiry with the call\'s clock sample: an expired (undone) write is reported' % (val, show(y)))
            return
        if cm.name == 'ut_set':
            ok = (y == ('bool', True))
        elif live:
            ok = False
            if y[0] == 'ctor' and typeclass(y[1]) == 'optional' and len(y[2]) == 1:
                v = y[2][0]
                if isinstance(v, tuple) and v[0] == 'pair':
                    v = v[1]
                if is_ld(v) and v[2][0] == 'fld' and v[2][2] == roles.value:
                    e = L.elem_entity(v[2][1])
                    ok = e.kind == 'FOUND' and e.arg == key and v[1] == 0
        else:
            ok = empty_result(y)
        res.ob('R-LOOKUP-PROV', ok=ok)
        if not ok:
            V(res, prop, 'R-LOOKUP-PROV', cm, b.where, 'hit does not return the value stored in the slot the index names for this key',
              site_of_seg(seg, m), 'path [%s] yields %s' % (val, show(y)))
    else:
        ok = empty_result(y)
        res.ob('R-LOOKUP-PROV', ok=ok)
        if not ok:
            V(res, prop, 'R-LOOKUP-PROV', cm, b.where, 'miss reports a value', site_of_seg(seg, m), 'path [%s] yields %s' % (val, show(y)))


NEW_METHOD_VALUE = [False]      # set while a method the property texts do not name is checked: its value is whatever it builds from its arguments


def value_param_ok(v, key):
    t = v[2] if is_ld(v) else v
    if t == ('p', 'value'):
        return True
    if NEW_METHOD_VALUE[0]:
        from symex import root_of
        def from_args(x):
            if not isinstance(x, tuple) or not x:
                return True
            if x[0] == 'p':
                return True
            if x[0] in ('fld', 'idx', 'deref', 'optval', 'ld', 'q', 'adv'):
                r = root_of(x[2] if x[0] == 'ld' else x)
                return r[0] not in ('field', 'this', 'heap', 'res')
            return all(from_args(y) for y in x[1:] if isinstance(y, tuple))
        return from_args(v)
    kl = key[2] if is_ld(key) else key
    if isinstance(t, tuple) and isinstance(kl, tuple):
        if t[0] == 'fld' and kl[0] == 'fld' and t[1] == kl[1] and t[2] == 'second' and kl[2] == 'first':
            return True
        if t[0] == 'get' and kl[0] == 'get' and t[2] == kl[2] and t[1] == kl[1] + 1:
            return True
    return False


def check_bind_update(res, prop, cm, roles, m, b):
    NEW_METHOD_VALUE[0] = not ops.named(m)
    try:
        _check_bind_update(res, prop, cm, roles, m, b)
    finally:
        NEW_METHOD_VALUE[0] = False


def _check_bind_update(res, prop, cm, roles, m, b):
    seg = b.seg
    effs = ops.body_effects(b, roles)
    cls = actual_class(effs)
    key = next((c[1][0] for c in seg.conds_of('PRESENT')), None)
    val = ' '.join(seg.valuation())
    L = seg.L
    if cls == 'UPDATE' and roles.value and not ops.named(m) and not [e for e in effs if e.kind == 'VAL']:
        return          # an operation added later that only uses the entry it found (find_or_insert's hit): a lookup, judged by the order rules
    if cls == 'UPDATE' and roles.value:
        vs = [e for e in effs if e.kind == 'VAL']
        ok = len(vs) == 1 and vs[0].ent.kind == 'FOUND' and vs[0].ent.arg == key and value_param_ok(vs[0].val, key)
        res.ob('R-BIND-COHERENT', ok=ok)
        if not ok:
            V(res, prop, 'R-BIND-COHERENT', cm, b.where, 'update does not store the call\'s value in the slot the index names for the key',
              first_site(vs, seg, m), 'path [%s]: %s' % (val, [repr(x) for x in vs]))
    if cls in ('NONE', 'REJECT', 'PURGE'):
        # a write the caller is told succeeded is the "most recent successful insert or update": it must have stored the value
        from rules_seq import ret_truth, tally_info
        claimed = False
        if b.in_loop is None:
            claimed = ret_truth(seg) is True
        else:
            name, incs = tally_info(b.top, b)
            claimed = name is not None and any(e.how != 'decl' and ops.is_increment(e, name) for e in incs)
        res.ob('R-BIND-COHERENT', ok=not claimed)
        if claimed:
            V(res, prop, 'R-BIND-COHERENT', cm, b.where, 'insert reports success on a path that stores nothing', site_of_seg(seg, m),
              'path [%s]: later lookups return the previous value although this write was reported successful' % val)
    if cls != 'BIND':
        return
    binds = seg.effs('BIND')
    bd = binds[0]
    why = None
    if len(binds) != 1:
        why = '%d index insertions' % len(binds)
    elif bd.key != key or not subject_key_ok(bd.key):
        why = 'index entry is created for %s, not for the call\'s key' % show(bd.key)
    elif bd.via not in ('emplace', 'insert', 'try_emplace', 'emplace_hint'):
        why = 'index written with %s (may overwrite silently)' % bd.via
    S = bd.ent
    if why is None and roles.value:
        vs = [e for e in effs if e.kind == 'VAL']
        if roles.kind == 'maplist':
            # value travels inside the emplaced element: a local keyed_element whose m_value was set from the parameter
            pass
        elif not (len(vs) == 1 and same_ent(vs[0].ent, S) and value_param_ok(vs[0].val, key)):
            why = 'the call\'s value is not stored in the slot that the index entry names'
    if why is None and roles.kind != 'maplist':
        for f, target in roles.backptrs.items():
            ws = [e for e in effs if e.kind == 'BACKPTR' and e.field == f and same_ent(e.ent, S)]
            if not ws:
                why = 'back-pointer %s of the bound slot is written 0 times' % f
                break
            w = ws[-1]          # the last store is the state the operation leaves (reads in between are forwarded by the engine)
            good = False
            if target == 'index':
                good = w.val == ('fld', bd.res, 'first') or (is_ld(w.val) and w.val[2] == ('fld', bd.res, 'first'))
                if bd.via == 'emplace_hint':
                    good = w.val == bd.res       # emplace_hint returns the iterator itself
            elif target == 'order' and roles.kind == 'slotvec':
                # the node whose payload is the bound slot id
                sid = bd.sid
                good = is_ld(sid) and sid[2][0] == 'deref' and sid[2][1] == w.val
                if not good:
                    # another name for the same node (`begin()` right after the node was spliced to the head): the list-position
                    # domain resolves both the stored iterator and the bound slot's node
                    try:
                        from pos import PosSim, Node
                        sim = PosSim(seg, roles)
                        sim.run()
                        n1, n2 = sim.memo.get(w.val), sim.memo_node(sid)
                        good = (not sim.unknown and not getattr(sim, 'infeasible', False)
                                and isinstance(n1, Node) and n1 is n2)
                    except Exception:
                        good = False
            elif target == 'perm':
                # the stored position p must be where the open list holds the bound slot: either the slot id was read from
                # m_open_list[p], or the path itself wrote the slot id to m_open_list[p]
                sid = bd.sid
                good = is_ld(sid) and sid[2][0] == 'idx' and sid[2][2] == w.val
                if not good:
                    good = any(x.kind == 'PERM_WR' and x.pos == w.val and x.val == sid for x in seg.effects)
                if not good and is_ld(sid) and sid[2][0] == 'idx' and isinstance(sid[2][2], tuple) and sid[2][2][:1] == ('rng',) \
                        and w.val == ('add', ld0(THIS(roles.part)), -1):
                    # the slot was read at the drawn position and the path established that the draw is the last in-use position
                    good = any(c[0] == 'IS_LAST_USED' and c[2] is True and isinstance(c[1][0], Ent) and c[1][0].kind == 'RANDPOS'
                               and c[1][0].arg == sid[2][2][1] for c in seg.conds)
            else:
                adds = [e for e in effs if e.kind == 'AUX_ADD' and e.aux == target and same_ent(e.ent, S)]
                good = len(adds) == 1 and w.val == adds[0].res
            if not good:
                why = 'back-pointer %s of the bound slot does not denote the slot\'s own %s entry (stored %s)' % (f, target, show(w.val))
                break
        if why is None and roles.kind == 'nodelist' and roles.name != 'fifo_cache':
            pass
    if why is None and roles.kind == 'maplist':
        adds = [e for e in effs if e.kind == 'AUX_ADD']
        ok2 = len(adds) == 1 and adds[0].ent.kind == 'NEW' and adds[0].ent.arg == bd.res[1]
        if not ok2:
            why = 'ttl node does not point back at the new key'
        if why is None and roles.value:
            # emplace(key, std::move(element)) with element.m_value := value
            lw = [e for e in seg.effects if e.kind == 'LOCAL' and isinstance(e.loc, tuple) and e.loc[0] == 'fld' and e.loc[2] == roles.value]
            if not (lw and value_param_ok(lw[-1].val, key)):
                why = 'the call\'s value is not stored in the new element'
    res.ob('R-BIND-COHERENT', ok=why is None)
    res.sample(dict(container=cm.name, method=b.where, valuation=val, bound=repr(S)), cap=10)
    if why is not None:
        V(res, prop, 'R-BIND-COHERENT', cm, b.where, why.split(' (stored')[0].split(' %')[0], bd.site, 'insert path [%s]: %s' % (val, why))


def raw_draw_is_bound_slot(seg, ent):
    """rr: a number drawn from uniform_int_distribution{0, size-1} used directly as element index names a bound slot when the path
    has established size >= capacity: then size == capacity (RI) and every slot 0..capacity-1 is bound"""
    if ent.kind != 'RAWRNG' or seg.cond('FULL') is not True:
        return False
    part = seg.L.part
    for d in seg.effs('RNG_DRAW'):
        if d.sym == ('rng', ent.arg):
            dist = d.dist
            return (isinstance(dist, tuple) and dist[0] == 'ctor' and len(dist) > 2 and len(dist[2]) == 2 and dist[2][0] == ('int', 0)
                    and dist[2][1] == ('add', ld0(part), -1))
    return False


def check_entities(res, prop, cm, roles, m, seg):
    for e in seg.effs('STALE_POS'):
        fe = seg.L.field_of_elem(e.loc)
        if fe is not None and fe[1] in roles.backptrs:
            res.ob('R-KIND', ok=False)
            V(res, prop, 'R-KIND', cm, where_of(m, seg), 'stored position %s computed before the list was re-linked' % fe[1], e.site,
              'path [%s]: %s := %s was evaluated before a later splice / erase: it denotes another entry\'s node'
              % (' '.join(seg.valuation()), show(e.loc), show(e.val)))
    _check_entities(res, prop, cm, roles, m, seg)


def _check_entities(res, prop, cm, roles, m, seg):
    """R-KIND / R-UNBIND-VIA-BACKPTR: every slot the path touches is named by a sanctioned producer"""
    for e in seg.effects:
        if e.kind == 'OTHER_WR' and getattr(e, 'field', None) == roles.index and isinstance(e.loc, tuple) and len(e.loc) == 3 \
                and e.loc[0] == 'fld' and e.loc[2] == 'second' and isinstance(e.loc[1], tuple) and e.loc[1][:1] == ('deref',) \
                and roles.kind != 'maplist':
            # `keyed_position->second = ...`: an existing index entry is re-pointed at another slot / node; the slot's own
            # back-pointer and the key it was stored for no longer agree with the index
            res.ob('R-BIND-COHERENT', ok=False)
            V(res, prop, 'R-BIND-COHERENT', cm, where_of(m, seg), 'an existing index entry is re-pointed at another slot', e.site,
              'path [%s]: %s := %s - the key now names a slot that was bound (and points back) to a different key'
              % (' '.join(seg.valuation()), show(e.loc), show(e.val)))
        ents = [getattr(e, 'ent', None)]
        for ent in ents:
            if ent is None or not isinstance(ent, Ent):
                continue
            if e.kind not in ('BIND', 'UNBIND', 'VAL', 'DEADLINE', 'STAMP', 'BACKPTR', 'AUX_ADD', 'AUX_DEL', 'MOVE', 'AUX_MOVE'):
                continue
            ok = ent.kind in GOOD_ENTS or raw_draw_is_bound_slot(seg, ent)
            if e.kind == 'MOVE' and ent.kind in ('OTHER',) :
                ok = True     # destinations / unresolved list nodes are judged by the position domain
            res.ob('R-KIND', ok=ok)
            if not ok:
                what = {'RAWRNG': 'a random number used directly as a slot index', 'PERMAT': 'an unsanctioned open-list position',
                        'STALE': 'a value read before an intervening loop changed the container', 'MAYALIAS': 'a possibly overwritten back-pointer',
                        'PARAM': 'a caller-supplied value', 'RES': 'the result of an unrelated container call', 'OTHER': 'an expression with no slot provenance'}.get(ent.kind, ent.kind)
                V(res, prop, 'R-KIND', cm, where_of(m, seg), '%s applied to %s' % (e.kind, what.split(' (')[0]), e.site,
                  'path [%s]: %s names its slot through %s: %s' % (' '.join(seg.valuation()), e.kind, what, show(ent.term) if isinstance(ent.term, tuple) else ent.term))


def field_default_zero(cm, name):
    f = cm.field_by_name.get(name)
    if f is None:
        return False
    for n in _walk(f.node):
        if n.get('kind') == 'IntegerLiteral':
            return n.get('value') == '0'
    return False


def numbering_loops(path, c):
    """number of loops of a constructor path that visit every element of container c once, in order, storing a local counter that
    starts at 0 and is stepped by one per element (the hand-written form of std::iota(begin, end, 0)); any other loop writing
    elements of c counts as 2 (not a clean numbering)"""
    from symex import root_of
    n = 0
    init = {}
    over = None
    for e in path.trace:
        if e[0] == 'lwr':
            init[e[1]] = e[2]
        if e[0] == 'range':
            over = e[1]
        if e[0] != 'loop':
            continue
        lp = e[1]
        def names_c(loc):
            if root_of(loc) == root_of(c):
                return True
            # *it with `it` a local that started at c.begin()
            if loc[0] == 'deref' and isinstance(loc[1], tuple) and loc[1] and loc[1][0] == 'lv':
                iv = next((v for k, v in init.items() if k[1] == loc[1][1]), None)
                return isinstance(iv, tuple) and iv and iv[0] == 'q' and iv[1] in ('begin', 'cbegin') and iv[2] == c
            return False
        writes = [x for it in lp.iters for x in it.trace if x[0] == 'wr' and isinstance(x[1], tuple) and x[1][0] in ('elem', 'deref', 'idx')
                  and names_c(x[1])]
        if not writes:
            continue
        its = [it for it in lp.iters if it.status != 'exit']
        ok = lp.kind == 'range' and (lp.range or over) == c and len(its) == 1 and its[0].status == 'continue' and len(writes) == 1
        if ok:
            # x = i++ : the element receives the counter's value before the step
            w = writes[0]
            v = w[2]
            steps = [x for x in its[0].trace if x[0] == 'lwr']
            ok = (w[1] == ('elem', c, lp.id) and isinstance(v, tuple) and v[0] == 'lv' and len(steps) == 1
                  and steps[0][1][1] == v[1] and steps[0][2] == ('add', v, 1) and init.get(steps[0][1]) == ('int', 0))
        if not ok and lp.kind == 'for' and len(its) == 1 and its[0].status == 'continue' and len(writes) == 1:
            # for (i = 0; i < c.size() [or capacity]; ++i) c[i] = i;
            w = writes[0]
            v = w[2]
            tr = its[0].trace
            steps = [x for x in tr if x[0] == 'lwr']
            conds = [x for x in tr if x[0] == 'cond']
            bound_ok = False
            if len(conds) == 1 and conds[0][2] is True and isinstance(conds[0][1], tuple) and conds[0][1][0] == 'cmp':
                op, a, b = conds[0][1][1], conds[0][1][2], conds[0][1][3]
                whole = (isinstance(b, tuple) and ((b[0] == 'q' and b[1] == 'size' and b[2] == c) or b == ('p', 'capacity')))
                bound_ok = (op == '<' and a == v and whole) or (op == '!=' and a == v and whole)
                if not bound_ok and op == '>' and b == v:
                    whole = (isinstance(a, tuple) and ((a[0] == 'q' and a[1] == 'size' and a[2] == c) or a == ('p', 'capacity')))
                    bound_ok = whole
            ok = (isinstance(v, tuple) and v[0] == 'lv' and w[1] == ('idx', c, v) and len(steps) == 1 and steps[0][1][1] == v[1]
                  and steps[0][2] == ('add', v, 1) and init.get(steps[0][1]) == ('int', 0) and bound_ok
                  and tr.index(w) < tr.index(steps[0]))
        if not ok and lp.kind == 'for' and len(its) == 1 and its[0].status == 'continue' and len(writes) == 1 and writes[0][1][0] == 'deref':
            # for (it = c.begin(); it != c.end(); ++it) *it = i++;
            w = writes[0]
            v = w[2]
            itv = w[1][1]
            tr = its[0].trace
            steps = [x for x in tr if x[0] == 'lwr']
            conds = [x for x in tr if x[0] == 'cond']
            cnt = [x for x in steps if isinstance(v, tuple) and v[0] == 'lv' and x[1][1] == v[1]]
            adv = [x for x in steps if x[1][1] == itv[1]]
            bound_ok = (len(conds) == 1 and conds[0][2] is True and isinstance(conds[0][1], tuple) and conds[0][1][0] == 'cmp'
                        and conds[0][1][1] == '!=' and conds[0][1][2] == itv and isinstance(conds[0][1][3], tuple)
                        and conds[0][1][3][0] == 'q' and conds[0][1][3][1] in ('end', 'cend') and conds[0][1][3][2] == c)
            ok = (isinstance(v, tuple) and v[0] == 'lv' and len(steps) == 2 and len(cnt) == 1 and len(adv) == 1
                  and cnt[0][2] == ('add', v, 1) and init.get(cnt[0][1]) == ('int', 0)
                  and isinstance(adv[0][2], tuple) and adv[0][2][0] == 'adv' and adv[0][2][1] == 1 and adv[0][2][2] == itv and bound_ok)
            # element receives the pre-increment value: `*it = i++` logs the step before the store but stores the old value (v is the lv itself)
        n += 1 if ok else 2
    return n


def check_ctor_shape(an, res, prop, cm, roles):
    """R-CTOR-SHAPE: the constructor establishes the representation invariant of the empty cache: slot storage / slot list / open
    list sized with the capacity argument, slot ids 0..capacity-1 each exactly once, partition at the head, counter 0"""
    if roles.name not in CACHES:
        return
    ctor = cm.ctor()
    inits, wrs, iotas = {}, {}, []
    for p in an.paths(cm, ctor):
        for e in p.trace:
            if e[0] == 'init':
                inits[e[1]] = e[2]
            elif e[0] == 'wr':
                wrs[e[1]] = e[2]
            elif e[0] == 'iota':
                iotas.append(e)
    site = ctor.loc and (ctor.loc[0], ctor.loc[1], ctor.key())
    probs = []

    def sized(field):
        return ops.ctor_sizes_field(an.paths(cm, ctor), THIS(field))

    for role in ('slots', 'order', 'perm'):
        f = getattr(roles, role, None)
        if f and not sized(f):
            probs.append('%s is not constructed with `capacity` elements' % f)
    ids = roles.order if roles.kind == 'slotvec' and roles.order else getattr(roles, 'perm', None)
    if roles.kind == 'slotvec' and ids:
        c = THIS(ids)
        good = [e for e in iotas if isinstance(e[1], tuple) and e[1][0] == 'q' and e[1][1] in ('begin', 'cbegin') and e[1][2] == c
                and isinstance(e[2], tuple) and e[2][0] == 'q' and e[2][1] in ('end', 'cend') and e[2][2] == c and e[3] == ('int', 0)]
        nloops = sum(numbering_loops(p, c) for p in an.paths(cm, ctor))
        if not ((len(good) == 1 and len(iotas) == 1 and nloops == 0) or (not iotas and nloops == 1)):
            probs.append('%s is not numbered 0..capacity-1 over its whole range exactly once' % ids)
    if roles.part and roles.order:
        v = wrs.get(THIS(roles.part))
        if v is None and THIS(roles.part) in inits:
            # member initialiser `m_end(m_list.begin())`: members are initialised in declaration order, so the list has to be
            # declared (hence sized) before the partition iterator
            names = [f.name for f in cm.fields]
            if names.index(roles.order) < names.index(roles.part):
                v = inits[THIS(roles.part)]
                if isinstance(v, tuple) and v[0] == 'ctor' and len(v[2]) == 1:
                    v = v[2][0]
            else:
                probs.append('%s is initialised from %s before that member is constructed' % (roles.part, roles.order))
        if not (isinstance(v, tuple) and v[0] == 'q' and v[1] in ('begin', 'cbegin') and v[2] == THIS(roles.order)):
            probs.append('%s does not start at the head of %s' % (roles.part, roles.order))
    if roles.counter:
        v = inits.get(THIS(roles.counter), wrs.get(THIS(roles.counter)))
        zero = v == ('int', 0) or (v in (('default',), None) and field_default_zero(cm, roles.counter))
        if not zero:
            probs.append('%s does not start at 0' % roles.counter)
    res.ob('R-CTOR-SHAPE', ok=not probs)
    for pmsg in probs:
        V(res, prop, 'R-CTOR-SHAPE', cm, ctor.key(), pmsg.split(' (')[0], site, 'constructor: %s (the empty cache must satisfy the representation invariant)' % pmsg)


def check_no_rehash(an, res, prop, cm, roles):
    if roles.name not in CACHES:
        return
    ctor = cm.ctor()
    idx = THIS(roles.index)
    order = []
    site = None
    if roles.field_tc(roles.index) in ('map', 'multimap'):
        res.ob('R-NO-REHASH', ok=True)      # a tree index never relocates its nodes
        return
    for p in an.paths(cm, ctor):
        for e in p.trace:
            if e[0] == 'call' and e[1] == idx:
                order.append((e[2], e[3]))
                site = e[5]
    names = [n for n, a in order]
    ok = 'reserve' in names and 'max_load_factor' in names and names.index('max_load_factor') < names.index('reserve')
    if ok:
        a = dict(order)['reserve']
        ok = len(a) == 1 and a[0] == ('p', 'capacity')
    res.ob('R-NO-REHASH', ok=ok)
    if not ok:
        V(res, prop, 'R-NO-REHASH', cm, ctor.key(), 'constructor does not reserve(capacity) after setting max_load_factor', site or (ctor.loc and (ctor.loc[0], ctor.loc[1], '')),
          'stored index iterators stay valid only if the hash index never rehashes; constructor calls: %s' % names)
    for m in an.entry_points(cm):
        for top in method_segments(an, cm, roles, m):
            for seg in top.all_segments():
                for e in seg.effects:
                    if e.kind == 'INDEX_OP' and e.name in ('reserve', 'rehash', 'max_load_factor'):
                        fine = ops.kind_of(m) == 'CLEAR' and any(x.kind == 'INDEX_OP' and x.name == 'clear' for x in seg.effects)
                        res.ob('R-NO-REHASH', ok=fine)
                        if not fine:
                            V(res, prop, 'R-NO-REHASH', cm, where_of(m, seg), 'index %s() while entries hold iterators into it' % e.name, e.site, '')


# ---------------------------------------------------------------------------------------------- C08

BOUND_KINDS = ('FOUND', 'BACK', 'AUXHEAD', 'RANDPOS', 'LV', 'VIA', 'TTLOF', 'FROMEND', 'FRONT', 'POSOF', 'NEW', 'AUXNODE')


def rule_c08(an, res):
    prop = 'C08'
    from rules_policy import check_perm_backptr
    import locks
    for cm, roles in an.classes():
        L = lift.Lifter(roles)
        check_raii(an, res, prop, cm)
        check_no_rehash(an, res, prop, cm, roles)
        check_ctor_shape(an, res, prop, cm, roles)
        for m in an.entry_points(cm):
            k = ops.kind_of(m)
            for top in method_segments(an, cm, roles, m, res):
                if k != 'CLEAR':
                    check_splice_dest(res, prop, cm, roles, m, top)
                for seg in top.all_segments():
                    okf, _ = lift.feasible(seg)
                    if not okf:
                        continue
                    check_iter_typestate(res, prop, cm, roles, m, seg)
                    from rules_pos import check_fifo_unbind
                    check_fifo_unbind(res, prop, cm, roles, m, seg, an)
                    check_free_slot(res, prop, cm, roles, m, seg)
                    check_entities(res, prop, cm, roles, m, seg)
                    if roles.name == 'rr_cache' and seg.effs('PERM_WR'):
                        check_perm_backptr(res, prop, cm, roles, m, seg)
                    if roles.name == 'rr_cache' and seg.effs('UNBIND'):
                        from rules_policy import check_rr_remove
                        check_rr_remove(res, prop, cm, roles, m, seg)
                    if roles.order is not None and k != 'CLEAR' and seg.effs('PART', 'BIND', 'UNBIND') and not has_partition_loops(seg):
                        sim = simulate(seg, roles)
                        bad = sim.integrity() if not sim.unknown else []
                        probs = list(sim.problems)
                        ok = not bad and not probs and not sim.unknown
                        res.ob('R-CLAIM-DOMINATED', ok=ok)
                        if bad or probs:
                            codes = [p[0] for p in probs] + [x.split(' (')[0].split(' %')[0] for x in bad]
                            V(res, prop, 'R-CLAIM-DOMINATED', cm, where_of(m, seg), codes[0], (probs[0][2] if probs and probs[0][2] else first_site(seg.effs('MOVE', 'PART'), seg, m)),
                              'path [%s]: %s; list %s' % (' '.join(seg.valuation()), '; '.join([p[1] for p in probs] + bad), sim.show()))
                        elif sim.unknown:
                            V(res, prop, 'R-CLAIM-DOMINATED', cm, where_of(m, seg), 'slot list shape not established', first_site(seg.effs('MOVE', 'PART'), seg, m),
                              '; '.join(sim.unknown[:3]))
                    check_victim_reads(res, prop, cm, roles, m, seg)
            # L5: no re-acquisition of the non-recursive mutex
            accs, facts = locks.collect(an, cm, roles, m)
            res.ob('L5-NO-RELOCK', ok=not facts['relock'])
            for e in facts['relock'][:1]:
                V(res, prop, 'L5-NO-RELOCK', cm, m.key(), 're-acquires m_lock while holding it', e[2], 'std::mutex is not recursive: undefined behaviour')


def check_raii(an, res, prop, cm):
    bad = []
    for m in cm.methods:
        for n in _walk(m.node):
            k = n.get('kind')
            if k in ('CXXNewExpr', 'CXXDeleteExpr', 'CXXReinterpretCastExpr', 'CXXConstCastExpr', 'CXXPseudoDestructorExpr'):
                bad.append((k, n.get('_loc'), m))
            elif k == 'CXXMemberCallExpr':
                c = n['inner'][0]
                if c.get('kind') == 'MemberExpr' and (c.get('name') or '').startswith('~'):
                    bad.append(('explicit destructor call', n.get('_loc'), m))
            elif k == 'CallExpr':
                c = n['inner'][0]
                while c.get('kind') in ('ImplicitCastExpr', 'ParenExpr'):
                    c = c['inner'][0]
                if c.get('kind') == 'DeclRefExpr' and c['referencedDecl'].get('name') in ('malloc', 'free', 'calloc', 'realloc', 'memcpy', 'memmove', 'memset'):
                    bad.append((c['referencedDecl']['name'], n.get('_loc'), m))
            elif k == 'BinaryOperator' and n.get('opcode') in ('+', '-', '+=', '-=') and (n.get('type', {}).get('qualType') or '').rstrip().endswith('*'):
                bad.append(('pointer arithmetic', n.get('_loc'), m))
    res.ob('R-RAII-ONLY', ok=not bad)
    for what, loc, m in bad[:3]:
        V(res, prop, 'R-RAII-ONLY', cm, m.key(), 'manual memory management: %s' % what, loc and (loc[0], loc[1], m.key()),
          'all storage is owned by value by std containers; %s makes exactly-once destruction the code\'s own burden' % what)


def iter_terms(t):
    for x in lift.subterms(t):
        yield x


def check_iter_typestate(res, prop, cm, roles, m, seg):
    """R-ITER-TS: no use of an iterator value after the call that erased its node; no use of an index/aux iterator obtained
    before a loop that erases from that container"""
    erased = []        # (container loc, iterator value term, site)
    erasing_loops = {}  # container loc -> site of a loop that erases from it
    val = ' '.join(seg.valuation())
    reported = set()
    loop_no = 0          # loops (that start a new era) seen so far on the path
    last_erasing = {}    # container loc -> number of the last loop that erases from it
    for e in seg.events:
        k = e[0]
        if k == 'loop':
            lp = e[1]
            if not getattr(lp, 'pure', False):
                loop_no += 1
            for it in lp.iters:
                for x in it.trace:
                    if x[0] == 'call' and x[2] in ('erase', 'clear', 'pop_front', 'pop_back'):
                        erasing_loops[rel(x[1], 0)] = lp.site
                        last_erasing[rel(x[1], 0)] = loop_no
            if lp.kind == 'range' and isinstance(lp.range, tuple):
                # `for (auto& x : m_container)`: the loop keeps a hidden iterator into the container it walks
                from symex import root_of
                rr = root_of(lp.range)
                if rr[0] == 'field':
                    def deep(p):
                        for x in p.trace:
                            yield x
                            if x[0] == 'loop':
                                for q in x[1].iters:
                                    yield from deep(q)
                    for it in lp.iters:
                        for x in deep(it):
                            if x[0] != 'call' or not isinstance(x[1], tuple) or root_of(x[1]) != rr or rel(x[1], 0) != rel(lp.range, 0):
                                continue
                            tc = x[6] if len(x) > 6 else None
                            node_based = tc in ('list', 'map', 'multimap', 'set', 'multiset')
                            bad = x[2] in ('erase', 'clear', 'extract', 'pop_front', 'pop_back', 'resize', 'swap', 'merge') or \
                                (not node_based and x[2] in ('insert', 'emplace', 'try_emplace', 'emplace_hint', 'emplace_back', 'push_back',
                                                             'rehash', 'reserve', 'operator[]', 'insert_or_assign'))
                            if bad:
                                key = (show(lp.range), 'rangefor', x[2])
                                res.ob('R-ITER-TS', ok=False)
                                if key not in reported:
                                    reported.add(key)
                                    V(res, prop, 'R-ITER-TS', cm, where_of(m, seg), 'container changed inside the range-for that walks it', x[5],
                                      'path [%s]: the loop at %s iterates %s and its body calls %s.%s(): the loop\'s own iterator may be the one '
                                      'that call invalidates' % (val, show_site(lp.site), show(lp.range), show(lp.range), x[2]))
            continue
        if k == 'call' and e[2] in ('erase', 'pop_front', 'pop_back'):
            if len(e[3]) == 1:
                erased.append((e[1], e[3][0], e[5]))
            elif e[2] == 'pop_front' and not e[3]:
                # the node begin() named until now is gone: a reference / iterator to it taken earlier dangles
                for ep in range(0, 4):
                    erased.append((e[1], ('q', 'begin', e[1], (), ep), e[5]))
            continue
        if k == 'call' and e[2] == 'clear':
            erased.append((e[1], ('*all*',), e[5]))
            continue
        uses = []

        def derefs_now(t, depth=0):
            # dereferences this access performs; what is inside a loaded value ('ld') was dereferenced when that value was read
            if not isinstance(t, tuple) or not t or depth > 14:
                return
            if t[0] == 'deref' and len(t) > 1:
                yield t[1]
            if t[0] == 'ld':
                return
            for x in t:
                if isinstance(x, tuple):
                    yield from derefs_now(x, depth + 1)
        if k == 'use':
            uses.append((e[1], e[3]))
        elif k == 'rd':
            for it in derefs_now(e[1]):
                uses.append((it, e[2]))
        elif k == 'wr':
            for it in derefs_now(e[1]):
                uses.append((it, e[3]))
        for itv, site in uses:
            for cont, ev, esite in erased:
                if itv == ev and isinstance(itv, tuple):
                    key = (show(itv), 'erased')
                    res.ob('R-ITER-TS', ok=False)
                    if key not in reported:
                        reported.add(key)
                        V(res, prop, 'R-ITER-TS', cm, where_of(m, seg), 'iterator used after the erase() that invalidated it', site,
                          'path [%s]: %s was erased at %s and is used afterwards' % (val, show(itv), show_site(esite)))
            # stale iterator from before an erasing loop
            if isinstance(itv, tuple) and itv[0] == 'q' and itv[1] in ('find', 'begin', 'cbegin', 'lower_bound', 'upper_bound') and (itv[4] or 0) < 0:
                cont = itv[2]
                obtained_after = loop_no - ((-(itv[4] or 0) + 999) // 1000)      # number of loops that had run when the iterator was taken
                if cont in erasing_loops and last_erasing.get(cont, 0) > obtained_after:
                    key = (show(itv), 'stale')
                    res.ob('R-ITER-TS', ok=False)
                    if key not in reported:
                        reported.add(key)
                        V(res, prop, 'R-ITER-TS', cm, where_of(m, seg), 'iterator obtained before a loop that erases from the same container is used after it',
                          site, 'path [%s]: %s may denote a node the loop at %s erased' % (val, show(itv), show_site(erasing_loops[cont])))
    res.ob('R-ITER-TS', ok=True)


def head_is_used(seg):
    """the path established begin() != partition: the list head is a used (bound) node, so the cache is non-empty"""
    return any(c[0] == 'AT_PART' and c[2] is False and isinstance(c[1][0], Ent) and c[1][0].kind == 'FRONT' for c in seg.conds)


def check_free_slot(res, prop, cm, roles, m, seg):
    """R-FREE-SLOT: back-pointer fields are read only from slots known to be bound"""
    L = seg.L
    val = ' '.join(seg.valuation())
    nonempty = seg.cond('NONEMPTY') is True or seg.cond('FULL') is True or seg.cond('PRESENT') is True or seg.cond('ATCAP') is True \
        or seg.cond('AUX_NONEMPTY') is True or head_is_used(seg)
    seen = set()
    written = set()
    for e in seg.events:
        if e[0] == 'wr':
            written.add(e[1])
        if e[0] != 'rd':
            continue
        loc = e[1]
        if loc in written:
            continue
        fe = L.field_of_elem(loc)
        if fe is None:
            continue
        ent, f = fe
        if f not in roles.backptrs:
            continue
        ok = ent.kind in BOUND_KINDS or raw_draw_is_bound_slot(seg, ent)
        why = None
        if ent.kind in ('BACK',) and seg.cond('FULL') is not True and roles.part is not None:
            ok, why = False, 'back() of the slot list is a used slot only when the cache is full'
        if ent.kind in ('AUXHEAD', 'RANDPOS', 'FRONT') and not nonempty and not any(c[0] == 'HASKEY' for c in seg.conds):
            if roles.name == 'fifo_cache' and ent.kind == 'FRONT':
                ok = True      # fifo's optional back-pointer is tested with has_value() before use
            else:
                ok, why = False, 'head of an auxiliary structure / random position is a bound slot only when the cache is non-empty'
        if ent.kind == 'ATPART':
            # prev(P) is bound when non-empty; P itself is free
            ok = ent.arg == -1 and nonempty
            why = 'slot at the partition is free'
        if ent.kind == 'FROMEND' and roles.name == 'fifo_cache':
            ok = True
        if ent.kind == 'PERMAT' and not ok and roles.part is not None:
            # rr: the open list holds the bound slots at positions [0, m_open_list_end) (RI): a position the path has tested to be
            # below the partition index names a bound slot
            from model import THIS as _THIS
            for c in seg.conds:
                raw, truth = c[4], c[5]
                if not (isinstance(raw, tuple) and raw and raw[0] == 'cmp'):
                    continue
                op, a, b = raw[1], raw[2], raw[3]
                if not truth:
                    op = {'<': '>=', '>=': '<', '>': '<=', '<=': '>'}.get(op)
                if op == '>':
                    op, a, b = '<', b, a
                if op == '<' and a == ent.arg and is_ld(b) and b[2] == _THIS(roles.part):
                    ok = True
                    break
        res.ob('R-FREE-SLOT', ok=ok)
        if not ok:
            key = (ent.key(), f)
            if key in seen:
                continue
            seen.add(key)
            V(res, prop, 'R-FREE-SLOT', cm, where_of(m, seg), 'stored iterator %s read from a slot not known to be bound (%s)' % (f, ent.kind), e[2],
              'path [%s]: %s; %s' % (val, show(loc), why or 'slot reached through %s' % ent.kind))


def check_victim_reads(res, prop, cm, roles, m, seg):
    """back() / begin() of a structure are read only when it is known non-empty"""
    nonempty = seg.cond('NONEMPTY') is True or seg.cond('FULL') is True or seg.cond('PRESENT') is True or seg.cond('AUX_NONEMPTY') is True \
        or head_is_used(seg)
    for e in seg.events:
        if e[0] != 'rd':
            continue
        loc = e[1]
        bad = None
        for x in lift.subterms(loc):
            if isinstance(x, tuple) and x[0] == 'q' and x[1] in ('back', 'front') and root_of(x[2])[0] == 'field' and not nonempty:
                bad = x
            if isinstance(x, tuple) and x[0] == 'deref' and isinstance(x[1], tuple) and x[1][0] == 'q' and x[1][1] in ('begin', 'cbegin') \
                    and root_of(x[1][2])[0] == 'field' and not nonempty and typeclass(cm.field_by_name.get(root_of(x[1][2])[1]).type) in ('multimap', 'map', 'list') \
                    and root_of(x[1][2])[1] != roles.order:      # the slot / node list always holds `capacity` >= 1 nodes (R-CAPACITY-FIXED)
                bad = x
        if bad is not None:
            res.ob('R-NONEMPTY-DEREF', ok=False)
            V(res, prop, 'R-NONEMPTY-DEREF', cm, where_of(m, seg), 'back()/*begin() of a container read without a non-empty test', e[2],
              'path [%s]: %s' % (' '.join(seg.valuation()), show(bad)))
            return
    res.ob('R-NONEMPTY-DEREF', ok=True)
