"""Path enumeration and symbolic store forwarding over clang's instantiated AST (DESIGN.md 3.1-3.3, 3.10).

This is an abstract interpreter over *terms*: no library code is executed and no
solver is consulted.  For every entry point it enumerates all control-flow paths
with private helpers inlined and produces, per path, an ordered trace of events:

  ('lock', loc, site, how) ('unlock', loc, site)          critical-region boundaries
  ('rd', loc, site) ('wr', loc, val, site)                field / element accesses
  ('call', recv, name, args, res, site, tc, flags)        mutating std-container calls
  ('q', term, site)                                       shape queries on containers (find, begin, size ...)
  ('use', itval, how, site)                               iterator uses (deref / advance / compare / argument)
  ('cond', term, truth, site)                             branch decisions
  ('now', sym, site) ('rng', sym, dist, engine, site)     clock samples, random draws
  ('enter', method, site) ('leave', method)               inlined helper boundaries
  ('loop', Loop)                                          a loop, summarised (section 3.3)
  ('ret', term, site)
  ('unknown', what, site)                                 construct outside the modelled vocabulary

Terms (nested tuples):
  ('this',) ('fld', base, name) ('idx', vec, i) ('deref', it) ('var', name, uid) ('p', name)
  ('q', name, recv, args, epoch) ('res', n) ('adv', k, it, epoch) ('add', t, k) ('bin', op, a, b)
  ('cmp', op, a, b) ('not', t) ('int', v) ('bool', v) ('enum', type, name) ('ctor', type, args)
  ('now', n) ('rng', n) ('pred', name, arg) ('ld', era, loc) ('lv', name, loopid, tag) ('elem', range, loopid)
  ('get', i, base) ('cast', type, t) ('unk', n) ('ma', loc, n) ('hasval', t) ('optval', t) ('global', name)
('ld', era, loc) is the value a location held when it was first read in that era (era 0 = method entry;
each loop iteration / loop exit starts a new era).
"""
import os
import re
import sys

from stdmodel import typeclass, lookup, CONTAINERS, ITERATORS

PASS_THROUGH = ('ParenExpr', 'ExprWithCleanups', 'MaterializeTemporaryExpr', 'CXXBindTemporaryExpr',
                'ConstantExpr', 'SubstNonTypeTemplateParmExpr', 'FullExpr')
MAX_DEPTH = 10
MAX_PATHS = 4000


def qt(n):
    t = n.get('type', {})
    return t.get('desugaredQualType') or t.get('qualType') or ''


def site_of(n, st=None):
    loc = n.get('_loc')
    fn = st.fn_stack[-1] if st is not None and st.fn_stack else None
    return (loc[0] if loc else None, loc[1] if loc else None, fn)


class Loop:
    def __init__(self, lid, kind, site):
        self.id = lid
        self.kind = kind          # while / for / range / do
        self.site = site
        self.cond_paths = []      # traces of the condition evaluation prefix per iteration path
        self.iters = []           # list of Path (one arbitrary iteration each)
        self.range = None         # range loc for range-for
        self.assigned = set()
        self.pure = False

    def __repr__(self):
        return '<Loop %s %s %s iters=%d>' % (self.id, self.kind, self.site, len(self.iters))


class Path:
    def __init__(self, trace, ret, status, st=None):
        self.trace = trace
        self.ret = ret
        self.status = status      # 'ret' | 'end' | 'break' | 'continue'
        self.state = st

    def events(self, kind=None, deep=False):
        for e in self.trace:
            if kind is None or e[0] == kind:
                yield e
            if deep and e[0] == 'loop':
                for it in e[1].iters:
                    yield from it.events(kind, deep)


class State:
    def __init__(self, ctx):
        self.ctx = ctx
        self.env = {}
        self.store = {}
        self.fieldwrites = {}
        self.epochs = {}
        self.era = 0
        self.trace = []
        self.guards = []          # (scope_depth, guard_loc, mutex_loc, held)
        self.scope = 0
        self.fn_stack = []
        self.results = {}         # res n -> (recv, name, args, tc)
        self.decided = {}         # cond term -> truth (path-local memo)
        self.absent = set()       # (map, key): key established absent from the map and not inserted since
        self.present = set()      # (map, key): key established present and nothing erased since
        self.retref = []          # per inlined call: does the callee return a reference
        self.rangecopy = {}       # local vector V -> caller's range R: V was filled, in order, with one (r, nullopt) per element r of R
        self.refs = {}            # reference member of a local helper object -> the location it was bound to by the constructor
        self.captures = {}        # init-capture variable of a lambda -> its binding (outlives the function that created the lambda)
        self.objs = []            # (scope_depth, number of guards declared before it, object loc, record name): locals whose destructor does work

    def clone(self):
        s = State.__new__(State)
        s.ctx = self.ctx
        s.env = dict(self.env)
        s.store = dict(self.store)
        s.fieldwrites = {k: list(v) for k, v in self.fieldwrites.items()}
        s.epochs = dict(self.epochs)
        s.era = self.era
        s.trace = list(self.trace)
        s.guards = list(self.guards)
        s.scope = self.scope
        s.fn_stack = list(self.fn_stack)
        s.results = dict(self.results)
        s.decided = dict(self.decided)
        s.absent = set(self.absent)
        s.present = set(self.present)
        s.retref = list(self.retref)
        s.rangecopy = dict(getattr(self, 'rangecopy', {}))
        s.refs = dict(getattr(self, 'refs', {}))
        s.captures = dict(getattr(self, 'captures', {}))
        s.outer_objs = getattr(self, 'outer_objs', frozenset())
        s.obj_reads = getattr(self, 'obj_reads', frozenset())
        s.objs = list(getattr(self, 'objs', []))
        s.this_obj = list(getattr(self, 'this_obj', []))
        return s

    def ev(self, *e):
        self.trace.append(tuple(e))

    def fresh(self):
        self.ctx.counter += 1
        return self.ctx.counter

    def epoch(self, key):
        return self.epochs.get(key, 0) + self.era * 1000

    def bump(self, recv, tc):
        self.epochs[recv] = self.epochs.get(recv, 0) + 1
        itc = {'list': 'list_it', 'umap': 'umap_it', 'map': 'tree_it', 'multimap': 'tree_it', 'vector': 'vec_it'}.get(tc)
        if itc:
            k = ('shape', itc)
            self.epochs[k] = self.epochs.get(k, 0) + 1

    def lock_held(self):
        return any(g[3] for g in self.guards)


def rec_node_inner(rec):
    return getattr(rec, 'node', {}).get('inner', []) if hasattr(rec, 'node') else []


def key_norm(t):
    """a key term with the read-era of caller-owned operands removed (the caller's range elements / arguments do not change during a call)"""
    if isinstance(t, tuple) and t:
        if t[0] == 'ld' and len(t) == 3 and root_of(t[2])[0] in ('param', 'local'):
            return ('ld', '*', key_norm(t[2]))
        return tuple(key_norm(x) if isinstance(x, tuple) else x for x in t)
    return t


def presence_key(v):
    """cond value `m.find(k) != m.end()` / `==`  ->  ((map, key), polarity: True iff the term being true means present)"""
    if isinstance(v, tuple) and v and v[0] == 'cmp' and v[1] in ('!=', '=='):
        for x, y in ((v[2], v[3]), (v[3], v[2])):
            if isinstance(x, tuple) and x and x[0] == 'q' and x[1] == 'find' and len(x[3]) == 1 and isinstance(y, tuple) and y and y[0] == 'q' \
                    and y[1] in ('end', 'cend') and y[2] == x[2]:
                return (x[2], key_norm(x[3][0])), v[1] == '!='
    return None


def json_types(node):
    """concatenated parameter type strings of a method node (to tell a template pattern from its instantiations)"""
    return ' '.join((c.get('type', {}).get('qualType', '') or '') for c in node.get('inner', []) if c.get('kind') == 'ParmVarDecl')


def opt_content(v):
    """(has_value, value) of an optional whose construction is visible on the path, else None"""
    if isinstance(v, tuple) and v:
        if v[0] == 'global' and v[1] == 'nullopt':
            return (False, None)
        if v[0] == 'ctor' and typeclass(v[1]) == 'optional':
            if len(v[2]) == 0:
                return (False, None)
            if len(v[2]) == 1:
                if v[2][0] == ('global', 'nullopt'):
                    return (False, None)
                return (True, v[2][0])
    return None


def fold_cmp(v):
    """comparison of two compile-time constants (enumerators, integer / bool literals) -> bool, else None"""
    if not (isinstance(v, tuple) and v and v[0] == 'cmp'):
        return None
    a, b = v[2], v[3]
    for x, y in ((a, b), (b, a)):
        if isinstance(x, tuple) and x and x[0] == 'addr' and y == ('int', 0):
            if v[1] == '==':
                return False
            if v[1] == '!=':
                return True

    def const(x):
        return isinstance(x, tuple) and x and x[0] in ('enum', 'int', 'bool')
    if not (const(a) and const(b)):
        return None
    if a[0] != b[0]:
        return None
    if a[0] == 'enum' and (a[1] or '').split('::')[-1] != (b[1] or '').split('::')[-1]:
        return None
    op = v[1]
    if a[0] == 'enum':
        if op == '==':
            return a[2] == b[2]
        if op == '!=':
            return a[2] != b[2]
        return None
    x, y = a[1], b[1]
    try:
        return {'==': x == y, '!=': x != y, '<': x < y, '>': x > y, '<=': x <= y, '>=': x >= y}[op]
    except Exception:
        return None


def root_of(t):
    """Storage a location lives in: ('field', name) member of *this (or reached through it),
    ('local', name), ('param', name), ('heap', None) memory reached through an iterator of unknown
    provenance, ('res', n) memory reached through a result of a container call."""
    seen = 0
    through_ptr = False
    while isinstance(t, tuple) and seen < 64:
        seen += 1
        k = t[0]
        if k == 'fld':
            if t[1] == ('this',):
                return ('field', t[2])
            t = t[1]
        elif k in ('deref', 'optval'):
            through_ptr = True
            t = t[1]
        elif k in ('idx', 'hasval', 'addr', 'rcslot'):
            t = t[1]
        elif k == 'q':
            t = t[2]
        elif k == 'adv':
            t = t[2]
        elif k in ('era', 'ld'):
            t = t[2]
        elif k == 'ma':
            t = t[1]
        elif k == 'get':
            t = t[2]
        elif k == 'elem':
            t = t[1]
        elif k == 'cast':
            t = t[2]
        elif k == 'res':
            return ('res', t[1])
        elif k == 'lv' and len(t) == 5 and t[4] == 'param':
            return ('param', t[1])
        elif k == 'nodeh':
            return ('local', 'node-handle')      # a node taken out of a map: owned by the function until it is re-inserted
        elif k in ('var', 'lv'):
            return ('heap', None) if through_ptr else ('local', t[1])
        elif k == 'p':
            return ('param', t[1])
        elif k == 'this':
            return ('this',)
        else:
            return ('heap', None) if through_ptr else ('other', k)
    return ('other', None)


ALGORITHMS = ('for_each', 'find_if', 'find_if_not', 'any_of', 'all_of', 'none_of', 'count_if', 'accumulate')
MUTATING_ALGOS = ('rotate', 'remove_if', 'remove', 'sort', 'stable_sort', 'reverse', 'partition', 'stable_partition', 'unique', 'shuffle',
                  'fill', 'fill_n', 'generate', 'generate_n', 'copy', 'copy_if', 'copy_n', 'copy_backward', 'move_backward', 'swap_ranges',
                  'replace', 'replace_if', 'nth_element', 'partial_sort', 'sample', 'inplace_merge', 'merge', 'next_permutation', 'prev_permutation')
READING_ALGOS = ('find', 'count', 'min_element', 'max_element', 'minmax_element', 'lower_bound', 'upper_bound', 'equal_range', 'binary_search',
                 'equal', 'mismatch', 'search', 'adjacent_find', 'is_sorted', 'is_partitioned', 'all_of', 'lexicographical_compare', 'reduce')


def _walk_nodes(n):
    if isinstance(n, dict):
        yield n
        for c in n.get('inner', []) or []:
            yield from _walk_nodes(c)


class LambdaMethod:
    """call operator of a local lambda, shaped like frontend.Method for inlining"""

    def __init__(self, node, owner):
        self.node = node
        self.id = node['id']
        self.name = 'lambda'
        self.params = [c for c in node.get('inner', []) if c.get('kind') == 'ParmVarDecl']
        self.body = next((c for c in node.get('inner', []) if c.get('kind') == 'CompoundStmt'), None)
        self.qname = '%s::<lambda>' % owner

    def key(self):
        return 'lambda(%s)' % ','.join(p.get('name', '_') for p in self.params)


class Ctx:
    def __init__(self, prog, cm):
        self.prog = prog
        self.cm = cm
        self.counter = 0
        self.unknowns = []
        self.npaths = 0
        self.lambdas = {}


class Evaluator:
    def __init__(self, prog, cm):
        self.prog = prog
        self.cm = cm
        self.ctx = Ctx(prog, cm)
        self.field_ids = {f.id: f for f in cm.fields}

    # ------------------------------------------------------------------ helpers
    def unknown(self, st, what, n):
        s = site_of(n, st)
        st.ev('unknown', what, s)
        self.ctx.unknowns.append((what, s))
        return ('unk', st.fresh())

    def ri_norm(self, loc):
        """representation invariant, back-pointer round trip: the index / count / ttl entry a bound element's stored position denotes
        maps back to that element, so `*(*e.m_keyed_position).second` (node lists) and `m_elements[(*e.m_keyed_position).second]`
        (slot vectors) are other names of `e`.  Locations are brought to the shorter name before the store is consulted, so a write
        through one name is seen through the other (reads of the stored position itself stay in the trace)."""
        r = getattr(self, '_ri_roles', False)
        if r is False:
            try:
                import model
                r = model.ROLES.get(self.cm.name)
            except Exception:
                r = None
            self._ri_roles = r
        if not r or not isinstance(loc, tuple) or not loc:
            return loc
        if loc[0] == 'fld' and len(loc) == 3 and isinstance(loc[1], tuple):
            base = self.ri_norm(loc[1])
            return loc if base is loc[1] else ('fld', base, loc[2])
        targets = ('index',) + tuple(r.get('aux') or ())

        def owner(t):
            if isinstance(t, tuple) and len(t) == 3 and t[0] == 'ld' and isinstance(t[2], tuple) and len(t[2]) == 3 and t[2][0] == 'fld' \
                    and t[2][2] == 'second':
                d = t[2][1]
                if isinstance(d, tuple) and len(d) == 2 and d[0] == 'deref' and isinstance(d[1], tuple) and len(d[1]) == 3 \
                        and d[1][0] == 'ld' and d[1][1] == t[1]:
                    f = d[1][2]
                    if isinstance(f, tuple) and len(f) == 3 and f[0] == 'fld' and r['backptrs'].get(f[2]) in targets:
                        return f[1]
            return None
        if r['kind'] == 'nodelist' and loc[0] == 'deref' and len(loc) == 2:
            e = owner(loc[1])
            if isinstance(e, tuple) and e and e[0] == 'deref':
                return self.ri_norm(e)
        if r['kind'] == 'slotvec' and loc[0] == 'idx' and len(loc) == 3 and loc[1] == ('fld', ('this',), r['slots']):
            e = owner(loc[2])
            if isinstance(e, tuple) and e and e[0] == 'idx' and e[1] == loc[1]:
                return self.ri_norm(e)
        return loc

    def load(self, st, loc, n=None, quiet=False):
        if not isinstance(loc, tuple):
            return loc
        loc = self.ri_norm(loc)
        if len(loc) == 3 and loc[0] == 'fld' and loc[1] in getattr(st, 'outer_objs', ()):
            st.obj_reads = getattr(st, 'obj_reads', frozenset()) | {loc}
        k = loc[0]
        if k in ('int', 'bool', 'enum', 'ctor', 'now', 'rng', 'pred', 'res', 'adv', 'add', 'bin', 'cmp', 'not',
                 'unk', 'global', 'cast', 'hasval', 'optval', 'float', 'str', 'pair', 'undef', 'some', 'lv', 'ld', 'ma',
                 'fn', 'void', 'default', 'un', 'mcall', 'fncall', 'randdev', 'rng-state', 'iota', 'lambda', 'addr', 'vit',
                 'atomicval', 'persistent', 'guardval', 'inserter', 'nodeh', 'keyless'):
            if k == 'lv' and loc in st.store:
                return st.store[loc]
            return loc
        if k == 'q' and loc[1] not in ('back', 'front', 'at', 'operator[]', 'data'):
            return loc          # value-returning query (find/begin/end/size...): already a value
        if loc in st.store:
            v = st.store[loc]
            if k == 'var' and isinstance(v, tuple) and v and v[0] == 'ctor':
                v = self.overlay_fields(st, loc, v)
            elif k == 'var' and isinstance(v, tuple) and v and v[0] == 'pair' and len(v) == 3:
                v = ('pair', st.store.get(('fld', loc, 'first'), v[1]), st.store.get(('fld', loc, 'second'), v[2]))
        elif k == 'fld' and loc[1] in st.store and self.agg_field(st.store[loc[1]], loc[2]) is not None:
            return self.agg_field(st.store[loc[1]], loc[2])
        elif k == 'fld' and isinstance(loc[1], tuple) and loc[1][:1] == ('var',) and loc[1] in st.store \
                and isinstance(st.store[loc[1]], tuple) and st.store[loc[1]][:1] == ('ld',) and len(st.store[loc[1]]) == 3 \
                and isinstance(st.store[loc[1]][2], tuple) and st.store[loc[1]][2][:1] in (('deref',), ('idx',), ('fld',)) \
                and self.record_of_value(st.store[loc[1]][2]) is not None:
            # a member of a local COPY of a stored record (`const auto oldest = m_ttl_list.front(); ... oldest.m_expire_time`): what the
            # record held when the copy was taken
            src = st.store[loc[1]]
            return ('ld', src[1], ('fld', src[2], loc[2]))
        elif k == 'var':
            v = ('undef', loc)
        elif k == 'fld' and isinstance(loc[1], tuple) and loc[1][0] in ('idx', 'deref') and \
                any(b != loc[1] for b in st.fieldwrites.get(loc[2], ())):
            v = ('ma', loc, st.era)
        elif k == 'p':
            v = loc
        else:
            v = ('ld', st.era, loc)
        if not quiet and k in ('fld', 'idx', 'deref', 'q', 'elem', 'get'):
            r = root_of(loc)
            if r[0] in ('field', 'res', 'this', 'heap'):
                st.ev('rd', loc, site_of(n, st) if n is not None else None)
        return v

    def record_of(self, tq):
        tname = (tq or '').replace('const ', '').split('::')[-1].split('<')[0].strip(' &')
        return self.cm.records.get(tname)

    def record_of_value(self, loc):
        """is `loc` (an element of the slot vector / a list node / a map's mapped value) a record of the container's own?"""
        # conservative: only node / slot locations of the structures whose elements are nested records
        return True if self.cm.records else None

    def overlay_fields(self, st, loc, v):
        """value of a local struct: its construction with the member-wise assignments made since laid over it"""
        rec = self.record_of(v[1])
        if rec is None or len(v[2]) != len(rec.fields):
            return v
        args = list(v[2])
        for i, f in enumerate(rec.fields):
            fl = ('fld', loc, f.name)
            if fl in st.store:
                args[i] = st.store[fl]
        return ('ctor', v[1], tuple(args))

    def nsdmi(self, f, st):
        """value of a field's default member initialiser (constants only), else ('default',)"""
        inner = [c for c in f.node.get('inner', []) if isinstance(c, dict) and c.get('kind') and not c['kind'].endswith('Comment')]
        if not inner:
            return ('default',)
        for st2, t in self.rv(inner[0], st.fork() if hasattr(st, 'fork') else st):
            if isinstance(t, tuple) and t and t[0] in ('int', 'bool', 'enum', 'float', 'str', 'global', 'ctor'):
                return t
            break
        return ('default',)

    def agg_field(self, v, name):
        """field of an aggregate / simple struct value constructed on the path: T{a, b} or T(a, b) with a member-wise constructor"""
        if not (isinstance(v, tuple) and v and v[0] == 'ctor'):
            return None
        tname = (v[1] or '').split('::')[-1].split('<')[0].strip()
        rec = self.cm.records.get(tname)
        if rec is None:
            return None
        names = [f.name for f in rec.fields]
        if name in names and len(v[2]) == len(names):
            return v[2][names.index(name)]
        return None

    def write(self, st, loc, val, n, how='='):
        loc = self.ri_norm(loc)
        if isinstance(loc, tuple) and len(loc) == 3 and loc[0] == 'fld' and loc[1] in getattr(st, 'outer_objs', ()) \
                and loc in getattr(st, 'obj_reads', ()):
            # a cursor / accumulator kept in a member of a helper object, read and then advanced by the loop: loop-carried state the
            # summary of an arbitrary iteration does not havoc (a member the iteration only writes - `guard.arm(e)` - is not)
            self.unknown(st, 'state carried across loop iterations in a member of a local helper object (%s)' % loc[2], n)
        if isinstance(loc, tuple) and len(loc) == 3 and loc[0] == 'fld' and loc[2] == 'second' and isinstance(loc[1], tuple) \
                and loc[1][0] == 'rcslot' and loc[1][1] in st.rangecopy:
            # out[i].second = r on the pre-filled output: the answer for R[i] is delivered paired with R[i] (= out.emplace_back(R[i], r))
            V, i = loc[1][1], loc[1][2]
            key = self.load(st, ('idx', st.rangecopy[V], i), n)
            k = st.fresh()
            st.results[k] = (V, 'emplace_back', (key, val), 'vector')
            st.ev('call', V, 'emplace_back', (key, val), ('res', k), site_of(n, st), 'vector', frozenset())
            st.store[loc] = val
            return
        st.store[loc] = val
        if isinstance(loc, tuple) and loc[0] == 'fld' and isinstance(loc[1], tuple) and loc[1][0] in ('idx', 'deref'):
            st.fieldwrites.setdefault(loc[2], []).append(loc[1])
        r = root_of(loc)
        if r[0] == 'field' and isinstance(val, tuple) and val and val[0] == 'adv' and len(val) > 3 and how not in ('++', '--') \
                and val[3] != st.epoch(('shape', 'list_it')) and isinstance(val[2], tuple) and val[2][0] in ('ld', 'adv', 'q'):
            # std::prev / std::next evaluated before the list was re-linked, stored after it: it names the neighbour of then, not of now
            st.ev('stale-pos', loc, val, site_of(n, st))
        if r[0] in ('field', 'res', 'this', 'param', 'other', 'heap'):
            st.ev('wr', loc, val, site_of(n, st), how)
        else:
            st.ev('lwr', loc, val, site_of(n, st), how)
        st.decided.clear()

    @staticmethod
    def strip(n):
        while n.get('kind') in PASS_THROUGH or (n.get('kind') == 'ImplicitCastExpr' and n.get('castKind') != 'LValueToRValue'):
            inner = [c for c in n.get('inner', []) if isinstance(c, dict) and c.get('kind')]
            if len(inner) != 1:
                break
            n = inner[0]
        return n

    # ------------------------------------------------------------------ expressions
    def rv(self, n, st):
        """evaluate to a value (loads glvalues)"""
        for st2, t in self.eval(n, st):
            if n.get('valueCategory') in ('lvalue', 'xvalue'):
                t = self.load(st2, t, n)
            yield st2, t

    def eval_args(self, nodes, st, as_value=True):
        """evaluate a list of argument nodes left to right; yields (st, [terms])"""
        def rec(i, st, acc):
            if i == len(nodes):
                yield st, acc
                return
            f = self.rv if as_value else self.eval
            if as_value and typeclass(qt(nodes[i])) in CONTAINERS:
                f = self.eval      # containers are passed by reference (splice's list argument ...)
            for st2, t in f(nodes[i], st):
                yield from rec(i + 1, st2, acc + [t])
        yield from rec(0, st, [])

    def eval(self, n, st):
        k = n.get('kind')
        h = getattr(self, 'e_' + str(k), None)
        if h is None:
            if k in PASS_THROUGH:
                inner = [c for c in n.get('inner', []) if isinstance(c, dict) and c.get('kind')]
                if len(inner) == 1:
                    yield from self.eval(inner[0], st)
                    return
            yield st, self.unknown(st, 'expr:%s' % k, n)
            return
        mv = self.consumed_moves(n) if k in self.CALL_KINDS else ()
        if not mv:
            yield from h(n, st)
            return
        c0 = self.inline_count
        for st2, t in h(n, st):
            if self.inline_count == c0:
                # std::move(x) handed to a library function / constructor that takes it by rvalue reference: x is left moved-from
                for a in mv:
                    for st3, loc in list(self.eval(a, st2.clone())):
                        loc = self.ri_norm(loc)
                        import os
                        if os.environ.get('CAPCHECK_DEBUG_MOVE'):
                            print('MOVE', show(loc) if isinstance(loc, tuple) else loc, loc)
                        if isinstance(loc, tuple) and loc and loc[0] in ('fld', 'idx', 'deref', 'optval') and root_of(loc)[0] in ('field', 'this', 'heap'):
                            self.write(st2, loc, ('moved', self.load(st2, loc, a)), a, 'move')
                        break
            yield st2, t

    CALL_KINDS = ('CXXConstructExpr', 'CXXTemporaryObjectExpr', 'CallExpr', 'CXXMemberCallExpr', 'CXXOperatorCallExpr')
    inline_count = 0

    def consumed_moves(self, n):
        """argument nodes x of this call written `std::move(x)` and bound to an rvalue / forwarding reference parameter (an argument
        bound to `const T&` carries a NoOp cast to const, one passed by value is a CXXConstructExpr of its own)"""
        if '_mv' in n:
            return n['_mv']
        out = []
        inner = [c for c in n.get('inner', []) if isinstance(c, dict) and c.get('kind')]
        args = inner if n.get('kind') in ('CXXConstructExpr', 'CXXTemporaryObjectExpr') else inner[1:]
        if n.get('kind') == 'CallExpr':
            cn = self.callee_name(n)[0]
            if cn in ('move', 'forward', 'as_const', 'addressof', 'swap', 'exchange'):
                args = []
        for a in args:
            while a.get('kind') in ('ParenExpr', 'ExprWithCleanups'):
                sub = [c for c in a.get('inner', []) if isinstance(c, dict) and c.get('kind')]
                if len(sub) != 1:
                    break
                a = sub[0]
            if a.get('kind') == 'CallExpr' and a.get('valueCategory') == 'xvalue' and self.callee_name(a)[0] == 'move':
                sub = a['inner'][1:]
                if len(sub) == 1 and sub[0].get('valueCategory') == 'lvalue':
                    out.append(sub[0])
        n['_mv'] = out
        return out

    def e_ImplicitCastExpr(self, n, st):
        ck = n.get('castKind')
        sub = n['inner'][0]
        for st2, t in self.eval(sub, st):
            if ck == 'LValueToRValue':
                t = self.load(st2, t, n)
            elif ck in ('IntegralToBoolean',):
                pass
            elif ck in ('IntegralToFloating', 'FloatingToIntegral', 'FloatingCast'):
                if sub.get('valueCategory') in ('lvalue', 'xvalue'):
                    t = self.load(st2, t, n)
                t = ('cast', qt(n), t)
            yield st2, t

    INTEGRAL = ('unsigned long', 'long', 'int', 'unsigned int', 'unsigned long long', 'long long', 'size_t', 'std::size_t', 'uint64_t', 'int64_t')

    def e_CStyleCastExpr(self, n, st):
        sub = n['inner'][0]
        dst = (n.get('type', {}).get('desugaredQualType') or qt(n) or '').replace('const ', '').strip()
        srct = (sub.get('type', {}).get('desugaredQualType') or qt(sub) or '').replace('const ', '').strip()
        for st2, t in self.rv(sub, st):
            if dst in self.INTEGRAL and srct in self.INTEGRAL and '64' not in dst + srct and \
                    ('long' in dst) >= ('long' in srct):
                yield st2, t        # widening / same-width integral conversion of an index or count: the value itself
            else:
                yield st2, ('cast', qt(n), t)

    e_CXXStaticCastExpr = e_CStyleCastExpr

    def e_CXXFunctionalCastExpr(self, n, st):
        sub = [c for c in n['inner'] if c.get('kind')][0]
        if typeclass(qt(n)) == 'lockguard':
            yield from self.temp_guard(n, sub, st)
            return
        yield from self.eval(sub, st)

    def e_CXXThisExpr(self, n, st):
        # inside an inlined member function of a nested record, `this` is the object the function was called on
        yield st, (st.this_obj[-1] if getattr(st, 'this_obj', None) and st.this_obj[-1] is not None else ('this',))

    def e_IntegerLiteral(self, n, st):
        yield st, ('int', int(n['value']))

    def e_FloatingLiteral(self, n, st):
        yield st, ('float', n.get('value'))

    def e_CXXBoolLiteralExpr(self, n, st):
        yield st, ('bool', bool(n['value']))

    def e_StringLiteral(self, n, st):
        yield st, ('str', n.get('value'))

    def e_CXXNullPtrLiteralExpr(self, n, st):
        yield st, ('int', 0)

    def e_CXXDefaultArgExpr(self, n, st):
        inner = [c for c in n.get('inner', []) if c.get('kind')]
        if inner:
            yield from self.eval(inner[0], st)
        else:
            yield st, ('default',)

    def e_CXXDefaultInitExpr(self, n, st):
        inner = [c for c in n.get('inner', []) if c.get('kind')]
        if inner:
            yield from self.eval(inner[0], st)
        else:
            yield st, ('default',)

    def e_DeclRefExpr(self, n, st):
        r = n['referencedDecl']
        rk = r.get('kind')
        if rk in ('VarDecl', 'ParmVarDecl', 'BindingDecl', 'DecompositionDecl'):
            b = st.env.get(r['id'])
            if b is None and rk == 'VarDecl':
                b = getattr(st, 'captures', {}).get(r['id'])
            if b is not None:
                yield st, b
                return
            if rk == 'VarDecl':
                c = getattr(self.prog, 'constants', {}).get(r['id'])
                yield st, (c if c is not None else ('global', r.get('name')))
                return
            yield st, ('p', r.get('name'))
            return
        if rk == 'EnumConstantDecl':
            yield st, ('enum', r.get('type', {}).get('qualType'), r.get('name'))
            return
        if rk in ('FunctionDecl', 'CXXMethodDecl'):
            yield st, ('fn', r.get('name'), r.get('id'))
            return
        yield st, self.unknown(st, 'declref:%s' % rk, n)

    def e_MemberExpr(self, n, st):
        base = n['inner'][0]
        name = n.get('name')
        for st2, b in self.eval(base, st):
            if n.get('isArrow') and b != ('this',):
                # pointer produced by iterator operator-> is modelled as the pointee location already
                pass
            if base.get('valueCategory') == 'prvalue' and not n.get('isArrow') and b != ('this',):
                # member of a temporary: keep as value projection
                pass
            yield st2, self.project(st2, b, name)

    def project(self, st, b, name):
        """fld with simplification through known results (emplace / make_pair)"""
        if isinstance(b, tuple) and b and b[0] == 'addr':
            b = b[1]                 # p->f with p = &x
        if b == ('deref', ('this',)):
            b = ('this',)            # (*this).f, also through a reference bound to *this
        if isinstance(b, tuple):
            if b[0] == 'rcslot' and name == 'first' and b[1] in st.rangecopy:
                return ('idx', st.rangecopy[b[1]], b[2])         # the key copied from the caller's range
            if b[0] == 'pair' and name in ('first', 'second'):
                return b[1] if name == 'first' else b[2]
            if b[0] == 'ctor':
                v = self.agg_field(b, name)
                if v is not None:
                    return v
            if b[0] == 'res' and name == 'first':
                info = st.results.get(b[1])
                # the pair a local vector's emplace_back(k, v) / push_back(pair) just constructed: its key is k
                if info and info[1] in ('emplace_back', 'push_back') and info[3] == 'vector' and isinstance(info[0], tuple) and info[0][:1] == ('var',):
                    a = list(info[2])
                    if len(a) == 1 and isinstance(a[0], tuple) and a[0] and a[0][0] == 'pair':
                        a = [a[0][1], a[0][2]]
                    if len(a) == 2 and ('fld', b, 'first') not in st.store:
                        return a[0]
            if b[0] == 'deref' and isinstance(b[1], tuple) and b[1][0] == 'res':
                info = st.results.get(b[1][1])
                # *emplace_result of a map-like container: the stored (key, value) pair
                if info and info[1] in ('emplace', 'insert', 'try_emplace', 'emplace_hint') and info[3] in ('multimap', 'map'):
                    kv = list(info[2])
                    if info[1] == 'emplace_hint' or (info[1] == 'insert' and len(kv) == 2 and not (isinstance(kv[0], tuple) and kv[0] and kv[0][0] in ('pair', 'ctor'))):
                        kv = kv[1:]          # leading hint
                    if len(kv) == 1 and isinstance(kv[0], tuple) and kv[0]:
                        if kv[0][0] == 'pair' and len(kv[0]) == 3:
                            kv = [kv[0][1], kv[0][2]]
                        elif kv[0][0] == 'ctor' and len(kv[0]) > 2 and len(kv[0][2]) == 2:
                            kv = list(kv[0][2])
                    if len(kv) >= 2:
                        if name == 'first':
                            return kv[0]
                        if name == 'second' and ('fld', b, name) not in st.store and not (isinstance(kv[1], tuple) and kv[1] and kv[1][0] == 'ctor'):
                            return kv[1]          # (a record-typed mapped value stays a location: its members are written through it)
        loc = ('fld', b, name)
        refs = getattr(st, 'refs', None)
        if refs and loc in refs:
            return refs[loc]            # a reference member of a local helper object: the thing it was bound to
        return loc

    def e_BinaryOperator(self, n, st):
        op = n['opcode']
        l, r = n['inner'][0], n['inner'][1]
        if op == '=' and qt(l) != 'bool':
            # count = static_cast<T>(count + static_cast<T>(ok)): the += form spelled out for -Wconversion
            core = r
            while core.get('kind') in ('ImplicitCastExpr', 'CXXStaticCastExpr', 'CStyleCastExpr', 'CXXFunctionalCastExpr', 'ParenExpr') \
                    and core.get('castKind', 'IntegralCast') in ('IntegralCast', 'NoOp') \
                    and len([c for c in core.get('inner', []) if isinstance(c, dict) and c.get('kind')]) == 1:
                core = [c for c in core['inner'] if isinstance(c, dict) and c.get('kind')][0]
            if core.get('kind') == 'BinaryOperator' and core.get('opcode') == '+':
                ops2 = [c for c in core.get('inner', []) if isinstance(c, dict) and c.get('kind')]
                if len(ops2) == 2:
                    def same_var(x):
                        y = x
                        while y.get('kind') in ('ImplicitCastExpr', 'ParenExpr', 'CXXStaticCastExpr') and y.get('inner'):
                            y = [c for c in y['inner'] if isinstance(c, dict) and c.get('kind')][0]
                        ll = self.strip(l)
                        return y.get('kind') == 'DeclRefExpr' and ll.get('kind') == 'DeclRefExpr' and \
                            (y.get('referencedDecl') or {}).get('id') == (ll.get('referencedDecl') or {}).get('id')
                    for a, b in ((ops2[0], ops2[1]), (ops2[1], ops2[0])):
                        if same_var(a) and self.bool_under_casts(b) is not None:
                            for st2, truth in self.cond(self.bool_under_casts(b), st):
                                for st3, lt in self.eval(l, st2):
                                    old_v = self.load(st3, lt, n)
                                    self.write(st3, lt, self.arith('+', old_v, ('int', 1 if truth else 0)), n, '+=')
                                    yield st3, lt
                            return
        if op == '=':
            if qt(l) == 'bool' and self.is_bool_expr(r):
                for st2, truth in self.cond(self.bool_core(r), st):
                    for st3, lt in self.eval(l, st2):
                        self.write(st3, lt, ('bool', truth), n)
                        yield st3, lt
                return
            for st2, rt in self.rv(r, st):
                for st3, lt in self.eval(l, st2):
                    self.write(st3, lt, rt, n)
                    yield st3, lt
            return
        if op in ('+=', '-=') and self.bool_under_casts(r) is not None and qt(l) != 'bool':
            # count += static_cast<size_t>(ok) / count += ok: a bool converts to exactly 0 or 1
            for st2, truth in self.cond(self.bool_under_casts(r), st):
                for st3, lt in self.eval(l, st2):
                    old = self.load(st3, lt, n)
                    self.write(st3, lt, self.arith(op[0], old, ('int', 1 if truth else 0)), n, op)
                    yield st3, lt
            return
        if op in ('+=', '-=', '*=', '/=', '|=', '&='):
            for st2, rt in self.rv(r, st):
                for st3, lt in self.eval(l, st2):
                    old = self.load(st3, lt, n)
                    new = self.arith(op[0], old, rt)
                    self.write(st3, lt, new, n, op)
                    yield st3, lt
            return
        if op == ',':
            for st2, _ in self.eval(l, st):
                yield from self.eval(r, st2)
            return
        if op in ('&&', '||'):
            # value context: fork like a condition and return the boolean
            for st2, truth in self.cond(n, st):
                yield st2, ('bool', truth)
            return
        for st2, lt in self.rv(l, st):
            for st3, rt in self.rv(r, st2):
                if op in ('<', '>', '<=', '>=', '==', '!='):
                    yield st3, ('cmp', op, lt, rt)
                else:
                    yield st3, self.arith(op, lt, rt)

    def keyless_known(self, st, v):
        """m.key_comp()(a, b) where one side is the key of the node find(k) / lower_bound(k) returned and the other is k itself"""
        m, a, b = v[1], v[2], v[3]

        def node_key(t):
            # the `first` of the node an iterator-valued map query denotes -> (query name, looked-up key) or None
            if isinstance(t, tuple) and t and t[0] == 'ld':
                t = t[2]
            if isinstance(t, tuple) and len(t) == 3 and t[0] == 'fld' and t[2] == 'first' and isinstance(t[1], tuple) and t[1] and t[1][0] == 'deref':
                q = t[1][1]
                if isinstance(q, tuple) and len(q) > 3 and q[0] == 'q' and q[1] in ('find', 'lower_bound') and q[2] == m and len(q[3]) == 1:
                    return q[1], q[3][0]
            return None
        for x, y, swapped in ((a, b, False), (b, a, True)):
            nk = node_key(y)
            if nk is None or key_norm(nk[1]) != key_norm(x):
                continue
            if nk[0] == 'find':
                return False                      # equal keys: neither is less than the other
            if (m, key_norm(x)) in st.absent:
                return not swapped                # k absent: k < lower_bound(k)->first, and not the other way round
        return None

    def counter_lambda(self, node):
        """`[n = K]() mutable { return n++; }` -> K (an integer literal), else None"""
        lam = self.strip(node)
        while lam.get('kind') in ('CXXConstructExpr', 'MaterializeTemporaryExpr', 'CXXBindTemporaryExpr', 'CXXFunctionalCastExpr') and lam.get('inner'):
            lam = self.strip([c for c in lam['inner'] if isinstance(c, dict) and c.get('kind')][0])
        if lam.get('kind') != 'LambdaExpr':
            return None
        rec = next((c for c in lam.get('inner', []) if c.get('kind') == 'CXXRecordDecl'), None)
        op = next((c for c in (rec or {}).get('inner', []) if c.get('kind') == 'CXXMethodDecl' and c.get('name') == 'operator()'), None)
        body = next((c for c in (op or {}).get('inner', []) if c.get('kind') == 'CompoundStmt'), None)
        if body is None:
            return None
        stmts = [c for c in body.get('inner', []) if isinstance(c, dict) and c.get('kind')]
        if len(stmts) != 1 or stmts[0].get('kind') != 'ReturnStmt':
            return None
        e = self.strip([c for c in stmts[0].get('inner', []) if isinstance(c, dict) and c.get('kind')][0])
        if e.get('kind') == 'ImplicitCastExpr':
            e = self.strip(e['inner'][0])
        if not (e.get('kind') == 'UnaryOperator' and e.get('opcode') == '++' and e.get('isPostfix')):
            return None
        ref = self.strip(e['inner'][0])
        if ref.get('kind') != 'DeclRefExpr':
            return None
        vid = ref['referencedDecl'].get('id')

        def find_var(x):
            if isinstance(x, dict):
                if x.get('kind') == 'VarDecl' and x.get('id') == vid:
                    return x
                for c in x.get('inner', []) or []:
                    r = find_var(c)
                    if r is not None:
                        return r
            return None
        vd = find_var(lam)
        inits = [c for c in lam.get('inner', []) if isinstance(c, dict) and c.get('kind') and c['kind'] not in ('CXXRecordDecl', 'CompoundStmt')]
        cand = []
        if vd is not None:
            cand += [c for c in vd.get('inner', []) if isinstance(c, dict) and c.get('kind') and not c['kind'].endswith('Comment')]
        cand += inits
        for c in cand:
            x = c
            while isinstance(x, dict):
                if x.get('kind') == 'IntegerLiteral':
                    try:
                        return int(x.get('value'))
                    except (TypeError, ValueError):
                        return None
                inner = [y for y in x.get('inner', []) or [] if isinstance(y, dict) and y.get('kind')]
                if len(inner) != 1:
                    break
                x = inner[0]
        return None

    def bool_under_casts(self, x):
        """the bool-typed operand of an integral conversion (implicit, static_cast, functional or C-style), or None"""
        while True:
            k = x.get('kind')
            if qt(x) == 'bool' and k not in ('ParenExpr',):
                return x
            inner = [c for c in x.get('inner', []) if isinstance(c, dict) and c.get('kind')]
            if k in ('ImplicitCastExpr', 'CXXStaticCastExpr', 'CStyleCastExpr', 'CXXFunctionalCastExpr', 'ParenExpr', 'ExprWithCleanups',
                     'MaterializeTemporaryExpr') and len(inner) == 1 and x.get('castKind', 'IntegralCast') in ('IntegralCast', 'NoOp', 'LValueToRValue'):
                if k == 'ImplicitCastExpr' and x.get('castKind') == 'LValueToRValue':
                    return None
                x = inner[0]
                continue
            return None

    def e_CompoundAssignOperator(self, n, st):
        yield from self.e_BinaryOperator(n, st)

    def arith(self, op, a, b):
        if op == '-' and isinstance(a, tuple) and a and a[0] == 'addr' and isinstance(a[1], tuple) and a[1][0] == 'idx':
            # &v[i] - v.data()  /  &v[i] - &v[0]  ==  i
            vec, i = a[1][1], a[1][2]
            if isinstance(b, tuple) and b and ((b[0] == 'q' and b[1] == 'data' and b[2] == vec) or
                                               (b[0] == 'addr' and b[1] == ('idx', vec, ('int', 0)))):
                return i
        if op in ('+', '-') and isinstance(b, tuple) and b[0] == 'int':
            k = b[1] if op == '+' else -b[1]
            if isinstance(a, tuple) and len(a) >= 4 and a[0] == 'q' and a[1] in ('begin', 'cbegin') and not a[3] and k >= 0 \
                    and isinstance(a[2], tuple) and a[2][:2] == ('fld', ('this',)) and a[2][2] in self.cm.field_by_name \
                    and typeclass(self.cm.field_by_name[a[2][2]].type) == 'vector':
                return ('vit', a[2], ('int', k))
            if isinstance(a, tuple) and a[0] == 'add':
                k += a[2]
                a = a[1]
            if isinstance(a, tuple) and a[0] == 'int':
                return ('int', a[1] + k)
            return a if k == 0 else ('add', a, k)
        if op == '+' and isinstance(a, tuple) and a[0] == 'int':
            return self.arith('+', b, a)
        if op == '+' and isinstance(a, tuple) and len(a) >= 3 and a[0] == 'q' and a[1] in ('begin', 'cbegin') and not a[3] \
                and isinstance(a[2], tuple) and a[2][:2] == ('fld', ('this',)) and a[2][2] in self.cm.field_by_name \
                and typeclass(self.cm.field_by_name[a[2][2]].type) == 'vector':
            return ('vit', a[2], b)          # v.begin() + i names v[i]
        return ('bin', op, a, b)

    def e_UnaryOperator(self, n, st):
        op = n['opcode']
        sub = n['inner'][0]
        if op in ('++', '--'):
            for st2, lt in self.eval(sub, st):
                old = self.load(st2, lt, n)
                new = self.arith('+', old, ('int', 1 if op == '++' else -1))
                self.write(st2, lt, new, n, op)
                yield st2, (old if n.get('isPostfix') else lt)
            return
        if op == '!':
            for st2, truth in self.cond(n, st):
                yield st2, ('bool', truth)
            return
        if op == '*':
            for st2, t in self.rv(sub, st):
                if isinstance(t, tuple) and t and t[0] == 'vit':
                    st2.ev('q', ('q', 'operator[]', t[1], (t[2],), None), site_of(n, st2))
                    yield st2, ('idx', t[1], t[2])
                    continue
                yield st2, (t[1] if isinstance(t, tuple) and t and t[0] == 'addr' else ('deref', t))
            return
        if op == '&':
            for st2, t in self.eval(sub, st):
                yield st2, ('addr', t)
            return
        for st2, t in self.rv(sub, st):
            if op == '-' and isinstance(t, tuple) and t and t[0] == 'int':
                yield st2, ('int', -t[1])
            elif op == '+' and isinstance(t, tuple) and t and t[0] == 'int':
                yield st2, t
            else:
                yield st2, ('un', op, t)

    NORETURN = ('__assert_fail', '__assert_perror_fail', '__assert', 'abort', 'terminate', '__builtin_unreachable', '__builtin_trap')

    def is_noreturn_call(self, x):
        x = self.strip(x)
        while x.get('kind') in ('CStyleCastExpr', 'CXXFunctionalCastExpr', 'CXXStaticCastExpr', 'ParenExpr') and x.get('inner'):
            x = self.strip([c for c in x['inner'] if isinstance(c, dict) and c.get('kind')][0])
        return x.get('kind') == 'CallExpr' and self.callee_name(x)[0] in self.NORETURN

    def e_ConditionalOperator(self, n, st):
        c, a, b = n['inner'][0], n['inner'][1], n['inner'][2]
        if self.is_noreturn_call(a) or self.is_noreturn_call(b):
            # assert(E): not part of the algorithm (absent from NDEBUG builds); neither its reads nor its condition are recorded
            st.ev('assert', site_of(n, st))
            yield st, ('void',)
            return
        for st2, truth in self.cond(c, st):
            yield from self.eval(a if truth else b, st2)

    def e_InitListExpr(self, n, st):
        elems = [c for c in n.get('inner', []) if c.get('kind')]
        scalar = qt(n) in ('unsigned long', 'long', 'int', 'unsigned int', 'bool', 'float', 'double', 'unsigned long long',
                           'long long', 'char', 'short', 'unsigned short', 'unsigned char')
        tname = (qt(n) or '').split('::')[-1].split('<')[0].strip()
        rec = self.record_of(qt(n))
        for st2, args in self.eval_args(elems, st):
            if rec is not None and len(args) <= len(rec.fields):
                args = list(args) + [('default',)] * (len(rec.fields) - len(args))
                for i, f in enumerate(rec.fields):
                    if args[i] == ('default',):
                        args[i] = self.nsdmi(f, st2)
                yield st2, ('ctor', qt(n), tuple(args))
                continue
            if typeclass(qt(n)) == 'pair' and len(args) == 2:
                yield st2, ('pair', args[0], args[1])
                continue
            if len(args) == 1 and isinstance(args[0], tuple) and args[0] and args[0][0] in ('enum', 'int', 'bool') \
                    and tname not in self.cm.records:
                yield st2, args[0]          # brace-initialised scalar / enum: the value itself
            elif scalar and len(args) <= 1:
                yield st2, (args[0] if args else ('int', 0))
            else:
                yield st2, ('ctor', qt(n), tuple(args))

    def e_CXXTemporaryObjectExpr(self, n, st):
        yield from self.e_CXXConstructExpr(n, st)

    def e_CXXConstructExpr(self, n, st):
        args = [c for c in n.get('inner', []) if c.get('kind')]
        tc = typeclass(qt(n))
        if tc == 'lockguard':
            yield from self.temp_guard(n, n, st)
            return
        ctor = n.get('ctorType', {}).get('qualType', '')
        if len(args) == 1 and not isinstance(args[0].get('kind'), type(None)):
            a0 = args[0]
            # copy / move construction from an object of the same type: the value itself
            at = typeclass(qt(a0))
            if at == tc and tc != 'other' or self._same_type(qt(n), qt(a0)):
                for st2, t in self.rv(a0, st):
                    yield st2, t
                return
        rec = self.record_of(qt(n))
        if rec is not None and not args and not any(c.get('kind') == 'CXXConstructorDecl' and not c.get('isImplicit') for c in rec_node_inner(rec)):
            yield st, ('ctor', qt(n), tuple(self.nsdmi(f, st) for f in rec.fields))
            return
        if tc == 'time_point' and len(args) == 1 and typeclass(qt(args[0])) == 'duration':
            # time_point{duration since epoch}: inverse of time_since_epoch()
            for st2, t in self.rv(args[0], st):
                yield st2, t
            return
        for st2, ts in self.eval_args(args, st):
            if tc == 'optional' and ts and ts[0] == ('global', 'in_place'):
                ts = ts[1:]                 # optional<T>{std::in_place, args...}: engaged, built from args
                if len(ts) == 2 and re.match(r'(const\s+)?std::optional<\s*std::pair<', qt(n) or ''):
                    ts = [('pair', ts[0], ts[1])]       # T is a pair: in_place forwards (a, b) to pair{a, b}
            if tc == 'pair' and len(ts) == 2:
                yield st2, ('pair', ts[0], ts[1])       # std::pair<A, B>{a, b} == std::make_pair(a, b)
                continue
            if tc == 'pair' and len(ts) == 3 and ts[0] == ('global', 'piecewise_construct'):
                a, b = ts[1], ts[2]
                if all(isinstance(x, tuple) and x and x[0] == 'fncall' and x[1] == 'forward_as_tuple' and len(x[2]) == 1 for x in (a, b)):
                    yield st2, ('pair', a[2][0], b[2][0])
                    continue
            yield st2, ('ctor', qt(n), tuple(ts))

    @staticmethod
    def _same_type(a, b):
        norm = lambda s: re.sub(r'\bconst\b|\s+|&', '', s or '')
        return norm(a) == norm(b) and a

    def callee_name(self, n):
        f = self.strip(n['inner'][0])
        if f.get('kind') == 'DeclRefExpr':
            r = f['referencedDecl']
            return r.get('name'), r.get('id'), r.get('kind'), f
        return None, None, None, f

    def e_CXXNewExpr(self, n, st):
        inner = [c for c in n.get('inner', []) if c.get('kind')]
        loc = ('var', '$heap', st.fresh())
        if inner:
            for st2, t in self.eval(inner[-1], st):
                st2.store[loc] = t
                st2.ev('new', loc, site_of(n, st2))
                yield st2, ('addr', loc)
        else:
            st.ev('new', loc, site_of(n, st))
            yield st, ('addr', loc)

    def e_CXXDeleteExpr(self, n, st):
        inner = [c for c in n.get('inner', []) if c.get('kind')]
        for st2, t in self.rv(inner[0], st):
            st2.ev('delete', t, site_of(n, st2))
            yield st2, ('void',)

    @staticmethod
    def _core_declref(c):
        """the DeclRefExpr under implicit casts / parentheses (a by-copy capture of an existing variable), else None"""
        while isinstance(c, dict) and c.get('kind') in ('ImplicitCastExpr', 'ParenExpr'):
            sub = [x for x in c.get('inner', []) if isinstance(x, dict) and x.get('kind')]
            if len(sub) != 1:
                return None
            c = sub[0]
        return c if isinstance(c, dict) and c.get('kind') == 'DeclRefExpr' else None

    def e_LambdaExpr(self, n, st):
        rec = next((c for c in n.get('inner', []) if c.get('kind') == 'CXXRecordDecl'), None)
        ops_ = [c for c in (rec or {}).get('inner', []) if c.get('kind') == 'CXXMethodDecl' and c.get('name') == 'operator()']
        if not ops_:
            # generic lambda: the call operator is a template; use its instantiation(s) that have a body
            for t in (rec or {}).get('inner', []):
                if t.get('kind') == 'FunctionTemplateDecl' and t.get('name') == 'operator()':
                    insts = [c for c in t.get('inner', []) if c.get('kind') == 'CXXMethodDecl' and
                             any(x.get('kind') == 'CompoundStmt' for x in c.get('inner', []))]
                    # the pattern itself comes first (dependent types); instantiations follow
                    insts = [c for c in insts if '<dependent type>' not in json_types(c)] or insts
                    ops_ = insts[-1:] if insts else []
                    for c in insts:
                        self.ctx.lambdas[c['id']] = LambdaMethod(c, st.fn_stack[-1] if st.fn_stack else '?')
        if not ops_:
            yield st, self.unknown(st, 'expr:LambdaExpr (generic / no call operator)', n)
            return
        self.ctx.lambdas[ops_[0]['id']] = LambdaMethod(ops_[0], st.fn_stack[-1] if st.fn_stack else '?')
        # init-captures (`[this, victim = m_lfu_list.begin()->second]`) are evaluated where the lambda is created, not where it runs
        inits = [c for c in n.get('inner', []) if isinstance(c, dict) and c.get('kind') and c.get('kind') not in
                 ('CXXRecordDecl', 'CompoundStmt', 'CXXThisExpr', 'DeclRefExpr')
                 and not (c.get('kind') == 'ImplicitCastExpr' and self._core_declref(c) is not None)
                 and not (c.get('kind') == 'CXXConstructExpr' and len([x for x in c.get('inner', []) if isinstance(x, dict) and x.get('kind')]) == 1
                          and self.strip([x for x in c['inner'] if isinstance(x, dict) and x.get('kind')][0]).get('kind') == 'DeclRefExpr'
                          and (self.strip([x for x in c['inner'] if isinstance(x, dict) and x.get('kind')][0]).get('referencedDecl') or {}).get('id') in st.env)]
        body = next((c for c in n.get('inner', []) if isinstance(c, dict) and c.get('kind') == 'CompoundStmt'), None)
        if inits and body is not None:
            unbound = []
            declared_inside = set(x.get('id') for x in _walk_nodes(body) if x.get('kind') in ('VarDecl', 'BindingDecl', 'DecompositionDecl'))
            declared_inside |= set(p.get('id') for p in ops_[0].get('inner', []) if p.get('kind') == 'ParmVarDecl')
            for x in _walk_nodes(body):
                if x.get('kind') == 'DeclRefExpr' and (x.get('referencedDecl') or {}).get('id') in declared_inside:
                    continue
                if x.get('kind') == 'DeclRefExpr':
                    rd = x.get('referencedDecl') or {}
                    if rd.get('kind') == 'VarDecl' and rd.get('id') not in st.env and rd.get('id') not in [u.get('id') for u in unbound] \
                            and rd.get('id') not in getattr(self.prog, 'constants', {}):
                        unbound.append(rd)
            if len(unbound) == len(inits):
                def go(i, st):
                    if i == len(inits):
                        yield st
                        return
                    # pair by type where that is unambiguous, else by order
                    cand = [u for u in unbound if (u.get('type') or {}).get('qualType') == (inits[i].get('type') or {}).get('qualType')]
                    u = cand[0] if len(cand) == 1 else unbound[i]
                    if ((u.get('type') or {}).get('qualType') or '').rstrip().endswith('&') and inits[i].get('valueCategory') == 'lvalue':
                        # `[&end = m_mru_end]`: a reference init-capture is another name for the thing itself
                        for st2, t in list(self.eval(inits[i], st))[:1]:
                            st2.env[u['id']] = t
                            st2.captures[u['id']] = t
                            yield from go(i + 1, st2)
                        return
                    outs = list(self.rv(inits[i], st)) if inits[i].get('valueCategory') != 'prvalue' else list(self.eval(inits[i], st))
                    for st2, t in outs[:1]:
                        loc = ('var', u.get('name'), u.get('id'))
                        st2.store[loc] = t
                        st2.env[u['id']] = loc
                        st2.captures[u['id']] = loc
                        st2.ev('lwr', loc, t, site_of(n, st2), 'decl')       # like `const auto size_before = ...;` at this point
                        yield from go(i + 1, st2)
                for st2 in go(0, st):
                    yield st2, ('lambda', ops_[0]['id'])
                return
        yield st, ('lambda', ops_[0]['id'])

    def e_CXXOperatorCallExpr(self, n, st):
        name, fid, fkind, fnode = self.callee_name(n)
        args = n['inner'][1:]
        if name is None:
            yield st, self.unknown(st, 'opcall', n)
            return
        if name == 'operator()' and fid not in self.ctx.lambdas and self.strip(args[0]).get('kind') == 'LambdaExpr':
            # immediately-invoked lambda: `const bool x = [&] { ... }();`
            for _ in self.e_LambdaExpr(self.strip(args[0]), st):
                pass
        if name == 'operator()' and fid in self.ctx.lambdas:
            # a lambda called in the function that defines it: inline its body (captures resolve through the enclosing scope)
            yield from self.inline(self.ctx.lambdas[fid], args[1:], n, st)
            return
        a0 = args[0]
        t0 = typeclass(qt(a0))
        if name == 'operator()' and len(args) == 3 and self.strip(a0).get('kind') == 'DeclRefExpr' and t0 == 'other':
            # a comparator kept in a local: `const auto& less = m.key_comp(); ... less(a, b)`
            vals = list(self.rv(a0, st.clone()))
            if len(vals) == 1 and isinstance(vals[0][1], tuple) and len(vals[0][1]) > 2 and vals[0][1][0] == 'q' and vals[0][1][1] == 'key_comp':
                cmpobj = vals[0][1]
                for st3, ts in self.eval_args(args[1:], st):
                    yield st3, ('keyless', cmpobj[2], ts[0], ts[1])
                return
        if name == 'operator()' and len(args) == 3:
            inner0 = self.strip(a0)
            if inner0.get('kind') == 'CXXMemberCallExpr' and self.strip(inner0['inner'][0]).get('name') == 'key_comp':
                # m.key_comp()(a, b): the map's strict ordering of keys
                for st2, cmpobj in self.rv(a0, st):
                    for st3, ts in self.eval_args(args[1:], st2):
                        m = cmpobj[2] if isinstance(cmpobj, tuple) and len(cmpobj) > 2 else None
                        yield st3, ('keyless', m, ts[0], ts[1])
                return
        if t0 == 'atomic':
            # ++a, a += n, a = v ... on a std::atomic: one indivisible read-modify-write
            for st2, loc in self.eval(a0, st):
                for st3, ts in self.eval_args(args[1:], st2):
                    yield st3, self.atomic_op(st3, loc, name, ts, n)
            return
        if name in ('operator*', 'operator->') and len(args) == 1:
            if t0 == 'optional':
                for st2, loc in self.eval(a0, st):
                    cur = self.load(st2, loc, n)
                    known = opt_content(cur)
                    yield st2, (known[1] if known is not None and known[0] else ('optval', cur))
                return
            for st2, itv in self.rv(a0, st):
                if isinstance(itv, tuple) and itv and itv[0] == 'q' and itv[1] in ('rbegin', 'crbegin') and name == 'operator*':
                    # *l.rbegin() is l.back()  (node lists: *std::prev(l.end()), the form the rest of the code uses)
                    rt = root_of(itv[2])
                    ft = self.cm.field_by_name[rt[1]].type if rt[0] == 'field' and rt[1] in self.cm.field_by_name else ''
                    if typeclass(ft) == 'list' and any(('::' + r) in ft for r in self.cm.records):
                        endq = ('q', 'end', itv[2], (), None)
                        st2.ev('q', endq, site_of(n, st2))
                        it2 = self.adv(st2, endq, -1, 'list_it')
                        st2.ev('use', it2, 'deref', site_of(n, st2))
                        yield st2, ('deref', it2)
                        continue
                    loc = ('q', 'back', itv[2], (), itv[4])
                    st2.ev('q', loc, site_of(n, st2))
                    yield st2, loc
                    continue
                if isinstance(itv, tuple) and itv and itv[0] == 'vit':
                    st2.ev('q', ('q', 'operator[]', itv[1], (itv[2],), None), site_of(n, st2))
                    yield st2, ('idx', itv[1], itv[2])
                    continue
                st2.ev('use', itv, 'deref', site_of(n, st2))
                yield st2, ('deref', itv)
            return
        if name in ('operator++', 'operator--'):
            d = 1 if name == 'operator++' else -1
            for st2, loc in self.eval(a0, st):
                old = self.load(st2, loc, n)
                st2.ev('use', old, 'advance', site_of(n, st2))
                new = self.adv(st2, old, d, t0)
                if isinstance(loc, tuple) and loc and loc[0] in ('q', 'adv', 'vit'):
                    # --c.end() / ++c.begin(): the operand is a temporary iterator, nothing is stored anywhere
                    yield st2, (old if len(args) == 2 else new)
                    continue
                self.write(st2, loc, new, n, '++' if d > 0 else '--')
                yield st2, (old if len(args) == 2 else loc)
            return
        if name == 'operator=' and self.strip(a0).get('kind') == 'CallExpr' and self.callee_name(self.strip(a0))[0] == 'tie':
            # std::tie(x, y) = p;   x = p.first; y = p.second  (tuple-like right-hand sides by std::get index)
            tie_args = self.strip(a0)['inner'][1:]
            rhs = args[1]
            for st2, locs in self.eval_args(tie_args, st, as_value=False):
                for st3, rl in (self.eval(rhs, st2) if rhs.get('valueCategory') in ('lvalue', 'xvalue') else self.rv(rhs, st2)):
                    is_pair = typeclass(qt(rhs)) == 'pair'
                    for i, l in enumerate(locs):
                        if isinstance(rl, tuple) and rl and rl[0] == 'pair':
                            v = rl[1 + i] if i < 2 else ('undef',)
                        elif isinstance(rl, tuple) and rl and rl[0] == 'ctor' and i < len(rl[2]):
                            v = rl[2][i]
                        elif is_pair:
                            v = self.load(st3, self.project(st3, rl, 'first' if i == 0 else 'second'), n)
                        else:
                            v = self.load(st3, ('get', i, rl), n)
                        self.write(st3, l, v, n)
                    yield st3, ('void',)
            return
        if name == 'operator=':
            for st2, rt in self.rv(args[1], st):
                for st3, lt in self.eval(a0, st2):
                    if isinstance(rt, tuple) and rt[0] == 'ctor' and typeclass(rt[1]) == 'optional' and t0 == 'optional':
                        pass
                    self.write(st3, lt, rt, n)
                    yield st3, lt
            return
        if name in ('operator==', 'operator!=', 'operator<', 'operator>', 'operator<=', 'operator>='):
            for st2, ts in self.eval_args(args, st):
                for t, a in zip(ts, args):
                    if typeclass(qt(a)) in ITERATORS:
                        st2.ev('use', t, 'compare', site_of(n, st2))
                yield st2, ('cmp', name[8:], ts[0], ts[1])
            return
        if name in ('operator+', 'operator-', 'operator*', 'operator/') and len(args) == 2:
            for st2, ts in self.eval_args(args, st):
                yield st2, self.arith(name[8:], ts[0], ts[1])
            return
        if name == 'operator[]':
            for st2, recv in self.eval(a0, st):
                for st3, it in self.rv(args[1], st2):
                    if t0 == 'vector' and recv in st3.rangecopy:
                        yield st3, ('rcslot', recv, it)          # slot i of the pre-filled output: (R[i], nullopt) until assigned
                    elif t0 == 'vector':
                        st3.ev('q', ('q', 'operator[]', recv, (it,), None), site_of(n, st3))
                        yield st3, ('idx', recv, it)
                    else:
                        yield from self.std_call(n, st3, recv, t0, 'operator[]', [it])
            return
        if name == 'operator()':
            if t0 == 'dist':
                for st2, dv in self.rv(a0, st):
                    for st3, eng in self.eval(args[1], st2):
                        k = st3.fresh()
                        st3.ev('rng', ('rng', k), dv, eng, site_of(n, st3))
                        if root_of(eng)[0] == 'field':
                            st3.ev('wr', eng, ('rng-state', k), site_of(n, st3), 'rng')
                        yield st3, ('rng', k)
                return
            if t0 == 'rng':
                # raw engine call m_mt(): a draw over the engine's whole range, no distribution
                for st2, eng in self.eval(a0, st):
                    k = st2.fresh()
                    st2.ev('rng', ('rng', k), ('raw-engine',), eng, site_of(n, st2))
                    if root_of(eng)[0] == 'field':
                        st2.ev('wr', eng, ('rng-state', k), site_of(n, st2), 'rng')
                    yield st2, ('rng', k)
                return
            if t0 == 'randdev':
                for st2, loc in self.eval(a0, st):
                    k = st2.fresh()
                    if root_of(loc)[0] == 'field':
                        st2.ev('wr', loc, ('rng-state', k), site_of(n, st2), 'rng')
                    yield st2, ('randdev', k)
                return
        if name == 'operator()' and 'std::function<' in ((qt(a0) or '') + (a0.get('type', {}).get('desugaredQualType') or '')):
            # a caller-installed callback (std::function member / parameter): user code, not the library's behaviour; it gets copies or
            # const references of what it is shown and cannot reach the container except through the public interface
            for st2, ts in self.eval_args(args, st):
                k = st2.fresh()
                st2.ev('usercall', ts[0], site_of(n, st2))
                yield st2, ('ucall', k)
            return
        yield st, self.unknown(st, 'operator:%s on %s' % (name, t0), n)

    def adv(self, st, v, d, tc=None):
        ep = st.epoch(('shape', tc if tc in ITERATORS else 'list_it'))
        if isinstance(v, tuple) and v[0] == 'adv' and v[3] == ep:
            k = v[1] + d
            return v[2] if k == 0 else ('adv', k, v[2], ep)
        return ('adv', d, v, ep)

    def e_CallExpr(self, n, st):
        name, fid, fkind, fnode = self.callee_name(n)
        args = n['inner'][1:]
        if name is None and fnode.get('kind') == 'MemberExpr' and fnode.get('name') == 'zero' and 'duration<' in (qt(n) or '') + (n.get('type', {}).get('desugaredQualType') or ''):
            yield st, ('int', 0)          # d.zero(): the static duration::zero() called through an object
            return
        if name == 'zero' and not args and 'duration<' in (qt(n) or '') + (n.get('type', {}).get('desugaredQualType') or ''):
            yield st, ('int', 0)          # std::chrono::duration<...>::zero()
            return
        if name is None:
            yield st, self.unknown(st, 'call:indirect', n)
            return
        if fid in self.cm.by_id and self.cm.by_id[fid].body is not None:
            yield from self.inline(self.cm.by_id[fid], args, n, st)
            return
        ff = getattr(self.prog, 'free_functions', {}).get(fid)
        if ff is not None and name not in ('insert_allowed', 'update_allowed', 'to_string'):
            # a free helper of the library itself (namespace cappuccino[::detail]): inlined like a private member
            if fid not in self.ctx.lambdas:
                lm = LambdaMethod(ff, 'cappuccino')
                lm.name = name
                lm.qname = 'cappuccino::%s' % name
                self.ctx.lambdas[fid] = lm
            yield from self.inline(self.ctx.lambdas[fid], args, n, st)
            return
        if name in ('__assert_fail', '__assert_perror_fail', '__assert', 'abort', 'terminate', 'exit', '_Exit', 'quick_exit',
                    '__builtin_unreachable', '__builtin_trap', '__throw_out_of_range', '__throw_logic_error', '__throw_bad_optional_access'):
            # no-return call (failed assert ...): the path ends here, nothing after it is reachable
            st.ev('noreturn', name, site_of(n, st))
            return
        if name in ('move', 'forward', 'as_const', 'addressof'):
            yield from self.eval(args[0], st)
            return
        if name in ('prev', 'next'):
            d = -1 if name == 'prev' else 1
            for st2, ts in self.eval_args(args, st):
                k = d
                if len(ts) > 1 and ts[1] != ('default',):
                    if isinstance(ts[1], tuple) and ts[1][0] == 'int':
                        k = d * ts[1][1]
                    elif name == 'next' and typeclass(qt(args[0])) == 'vec_it' and isinstance(ts[0], tuple) and ts[0][0] == 'q' \
                            and ts[0][1] in ('begin', 'cbegin'):
                        yield st2, ('vit', ts[0][2], ts[1])        # begin(v) + i
                        continue
                    else:
                        yield st2, self.unknown(st2, 'std::%s with symbolic distance' % name, n)
                        continue
                st2.ev('use', ts[0], 'advance', site_of(n, st2))
                yield st2, self.adv(st2, ts[0], k, typeclass(qt(args[0])))
            return
        if name in ('begin', 'end', 'size', 'cbegin', 'cend', 'empty') and len(args) == 1:
            for st2, recv in self.eval(args[0], st):
                yield from self.std_call(n, st2, recv, typeclass(qt(args[0])), name, [])
            return
        if name == 'make_pair':
            for st2, ts in self.eval_args(args, st):
                yield st2, ('pair', ts[0], ts[1])
            return
        if name in ALGORITHMS and len(args) >= 3:
            yield from self.algorithm(n, name, args, st)
            return
        if name in ('back_inserter', 'front_inserter', 'inserter') and args:
            for st2, c in self.eval(args[0], st):
                yield st2, ('inserter', name, c)
            return
        if name == 'transform' and len(args) == 4:
            yield from self.algorithm(n, name, args, st)
            return
        if (name in MUTATING_ALGOS or name in READING_ALGOS) and not (name == 'generate' and len(args) == 3 and self.counter_lambda(args[2]) is not None):
            # an <algorithm> the engine has no exact summary for: conservatively, a mutating one changes every range it is given
            # (a structure write on a member container, a re-ordering of a caller's range), a reading one reads them
            for st2, ts in self.eval_args(args, st):
                seen = set()
                for t, a in zip(ts, args):
                    if typeclass(qt(a)) not in ITERATORS and not (isinstance(t, tuple) and t and t[0] in ('q', 'adv', 'vit', 'lv')):
                        continue
                    c = t
                    while isinstance(c, tuple) and c and c[0] in ('adv',):
                        c = c[2]
                    cont = c[2] if isinstance(c, tuple) and c and c[0] == 'q' else (c[1] if isinstance(c, tuple) and c and c[0] == 'vit' else None)
                    if cont is None or cont in seen:
                        continue
                    seen.add(cont)
                    k = st2.fresh()
                    res = ('res', k)
                    ctc = 'list'
                    rt = root_of(cont)
                    if rt[0] == 'field' and rt[1] in self.cm.field_by_name:
                        ctc = typeclass(self.cm.field_by_name[rt[1]].type)
                    if name in MUTATING_ALGOS:
                        st2.results[k] = (cont, 'algo:' + name, tuple(ts), ctc)
                        st2.ev('call', cont, 'algo:' + name, tuple(ts), res, site_of(n, st2), ctc, frozenset(['unmodelled']))
                        st2.bump(cont, ctc)
                        st2.decided.clear()
                    else:
                        st2.ev('q', ('q', 'algo:' + name, cont, (), st2.epoch(cont)), site_of(n, st2))
                for t, a in zip(ts, args):
                    if typeclass(qt(a)) == 'rng' or (isinstance(t, tuple) and t and root_of(t)[0] == 'field' and typeclass(qt(a)) == 'rng'):
                        kk = st2.fresh()
                        st2.ev('rng', ('rng', kk), ('algo', name), t, site_of(n, st2))
                yield st2, ('fncall', name, tuple(ts))
            return
        if name == 'exchange' and len(args) == 2:
            # old = a; a = b; return old
            for st2, lt in self.eval(args[0], st):
                for st3, nv in self.rv(args[1], st2):
                    old_v = self.load(st3, lt, n)
                    self.write(st3, lt, nv, n)
                    yield st3, old_v
            return
        if name == 'iter_swap' and len(args) == 2:
            for st2, its in self.eval_args(args, st):
                la, lb = self.deref_term(its[0]), self.deref_term(its[1])
                va = self.load(st2, la, n)
                vb = self.load(st2, lb, n)
                st2.ev('swap', la, lb, site_of(n, st2))
                self.write(st2, la, vb, n, 'swap')
                self.write(st2, lb, va, n, 'swap')
                yield st2, ('void',)
            return
        if name in ('duration_cast', 'time_point_cast', 'ceil', 'floor', 'round') and len(args) == 1 \
                and 'chrono' in ((n['inner'][1].get('type', {}).get('desugaredQualType') or qt(args[0]) or '')):
            # exact (hence the identity on the represented time) when the target period divides the source period
            def period(tq):
                m = re.search(r'duration<[^,<>]*(?:<[^<>]*>)?[^,<>]*,\s*std::ratio<\s*(\d+)\s*(?:,\s*(\d+)\s*)?>', tq or '')
                if m:
                    return (int(m.group(1)), int(m.group(2) or 1))
                if re.search(r'duration<[^,<>]+>', tq or ''):
                    return (1, 1)
                named = {'nanoseconds': (1, 10**9), 'microseconds': (1, 10**6), 'milliseconds': (1, 1000), 'seconds': (1, 1),
                         'minutes': (60, 1), 'hours': (3600, 1)}
                for k, v in named.items():
                    if ('std::chrono::' + k) in (tq or ''):
                        return v
                return None
            src = period(n['inner'][1].get('type', {}).get('desugaredQualType') or qt(args[0]))
            dst = period(n.get('type', {}).get('desugaredQualType') or qt(n))
            exact = src and dst and (src[0] * dst[1]) % (src[1] * dst[0]) == 0
            for st2, ts in self.eval_args(args, st):
                yield st2, (ts[0] if exact else ('fncall', name, tuple(ts)))
            return
        if name == 'make_optional' and len(args) == 1:
            for st2, ts in self.eval_args(args, st):
                yield st2, ('ctor', qt(n), (ts[0],))
            return
        if name == 'now':
            k = st.fresh()
            st.ev('now', ('now', k), site_of(n, st))
            yield st, ('now', k)
            return
        if name == 'swap' and len(args) == 2:
            for st2, ls in self.eval_args(args, st, as_value=False):
                va = self.load(st2, ls[0], n)
                vb = self.load(st2, ls[1], n)
                st2.ev('swap', ls[0], ls[1], site_of(n, st2))
                self.write(st2, ls[0], vb, n, 'swap')
                self.write(st2, ls[1], va, n, 'swap')
                yield st2, ('void',)
            return
        if name == 'iota' and len(args) == 3:
            for st2, ts in self.eval_args(args, st):
                st2.ev('iota', ts[0], ts[1], ts[2], site_of(n, st2))
                r = root_of(ts[0])
                st2.ev('wr', ('range', ts[0], ts[1]), ('iota', ts[2]), site_of(n, st2), 'iota')
                yield st2, ('void',)
            return
        if name == 'generate' and len(args) == 3:
            start = self.counter_lambda(args[2])
            if start is not None:
                # std::generate(b, e, [n = 0]() mutable { return n++; }) numbers the range like std::iota(b, e, 0)
                for st2, ts in self.eval_args(args[:2], st):
                    st2.ev('iota', ts[0], ts[1], ('int', start), site_of(n, st2))
                    st2.ev('wr', ('range', ts[0], ts[1]), ('iota', ('int', start)), site_of(n, st2), 'iota')
                    yield st2, ('void',)
                return
        if name in ('insert_allowed', 'update_allowed'):
            for st2, ts in self.eval_args(args, st):
                yield st2, ('pred', name, ts[0])
            return
        if name == 'atomic_thread_fence':
            st.ev('fence', site_of(n, st))
            yield st, ('void',)
            return
        if name == 'get' and len(args) == 1:
            m = re.search(r'tuple_element<(\d+)', qt(n)) or re.search(r'get<(\d+)', str(fnode.get('type')))
            idx = int(m.group(1)) if m else None
            if idx is None:
                # std::get<I>(pair): the index is a template argument; recover it from the referenced specialisation's name / the types
                at = (args[0].get('type', {}).get('desugaredQualType') or qt(args[0]) or '')
                rt = (n.get('type', {}).get('desugaredQualType') or qt(n) or '')
                idx = self.pair_get_index(fnode, at, rt)
            for st2, b in self.eval(args[0], st):
                if typeclass(qt(args[0])) == 'pair' and idx in (0, 1):
                    yield st2, self.project(st2, b, 'first' if idx == 0 else 'second')
                else:
                    yield st2, ('get', idx if idx is not None else '?', b)
            return
        if name == 'advance' and len(args) == 2:
            # std::advance(it, k): it = std::next(it, k)
            for st2, lt in self.eval(args[0], st):
                for st3, kv in self.rv(args[1], st2):
                    if isinstance(kv, tuple) and kv[0] == 'int':
                        old_v = self.load(st3, lt, n)
                        st3.ev('use', old_v, 'advance', site_of(n, st3))
                        self.write(st3, lt, self.adv(st3, old_v, kv[1], typeclass(qt(args[0]))), n, '++' if kv[1] > 0 else '--')
                        yield st3, ('void',)
                    else:
                        yield st3, self.unknown(st3, 'std::advance with symbolic distance', n)
            return
        if name in ('min', 'max', 'distance', 'advance'):
            for st2, ts in self.eval_args(args, st):
                yield st2, ('fncall', name, tuple(ts))
            return
        # a free function applied to plain values (no container, no memory reached through the object): opaque and pure
        for st2, ts in self.eval_args(args, st):
            if all(root_of(t)[0] in ('local', 'param', 'other') and not (isinstance(t, tuple) and t and t[0] in ('fld', 'idx', 'deref', 'q', 'res'))
                   for t in ts):
                yield st2, ('fncall', name, tuple(ts))
            else:
                yield st2, self.unknown(st2, 'call:%s' % name, n)

    def deref_term(self, itv):
        if isinstance(itv, tuple) and itv and itv[0] == 'vit':
            return ('idx', itv[1], itv[2])
        return ('deref', itv)

    @staticmethod
    def pair_get_index(fnode, arg_type, ret_type):
        """I of std::get<I>(pair<A, B>): from the template arguments clang prints, else by comparing the result type with A / B"""
        for src in (str(fnode.get('referencedDecl', {}).get('type', {})), str(fnode.get('type', {}))):
            m = re.search(r'tuple_element<(\d+)', src)
            if m:
                return int(m.group(1))
        m = re.match(r'.*?pair<(.*)>\s*&*$', arg_type.replace('const ', ''))
        if not m:
            return None
        inner = m.group(1)
        depth, cut = 0, None
        for i, ch in enumerate(inner):
            if ch in '<(':
                depth += 1
            elif ch in '>)':
                depth -= 1
            elif ch == ',' and depth == 0:
                cut = i
                break
        if cut is None:
            return None
        a, b = inner[:cut].strip(), inner[cut + 1:].strip()
        r = ret_type.replace('const ', '').strip(' &')
        if a == b:
            return None
        if r == a:
            return 0
        if r == b:
            return 1
        return None

    def algorithm(self, n, name, args, st):
        """std::for_each / find_if / find_if_not / any_of / all_of / none_of / count_if / accumulate over [first, last) with a local
        lambda, summarised exactly like the hand-written loop it stands for"""
        site = site_of(n, st)
        for st2, ts in self.eval_args(args[:2], st):
            first, last = ts[0], ts[1]
            rest = args[2:]
            acc_loc = None
            stx = st2
            out_ins = None
            if name == 'transform':
                ov = list(self.rv(rest[0], stx))
                if len(ov) != 1 or not (isinstance(ov[0][1], tuple) and ov[0][1] and ov[0][1][0] == 'inserter'):
                    yield stx, self.unknown(stx, 'call:transform into something that is not a std::back_inserter', n)
                    continue
                stx, out_ins = ov[0]
                rest = rest[1:]
            if name == 'accumulate':
                if len(rest) != 2:
                    yield stx, self.unknown(stx, 'call:%s' % name, n)
                    continue
                vals = list(self.rv(rest[0], stx))
                if len(vals) != 1:
                    yield stx, self.unknown(stx, 'call:%s' % name, n)
                    continue
                stx, init_v = vals[0]
                fn_node = rest[1]
            else:
                fn_node = rest[0]
            fvals = list(self.rv(fn_node, stx))
            if len(fvals) != 1 or not (isinstance(fvals[0][1], tuple) and fvals[0][1][0] == 'lambda'):
                yield stx, self.unknown(stx, 'call:%s with a callable that is not a local lambda' % name, n)
                continue
            stx, fv = fvals[0]
            lam = self.ctx.lambdas[fv[1]]
            lid = stx.fresh()
            same_range = (isinstance(first, tuple) and isinstance(last, tuple) and first[0] == 'q' and last[0] == 'q'
                          and first[1] in ('begin', 'cbegin') and last[1] in ('end', 'cend') and first[2] == last[2]
                          and name not in ('find_if', 'find_if_not'))       # the searches hand back the iterator they stopped at
            L = Loop(lid, 'range' if same_range else 'for', site)
            ids = set(self.assigned_locals(lam.body)) if lam.body is not None else set()
            it_id = 'synth-it-%d' % lid
            it_loc = ('var', '$it', it_id)
            stx.env[it_id] = it_loc
            stx.store[it_loc] = first
            stx.ev('lwr', it_loc, first, site, 'decl')
            ids.add(it_id)
            res_id = 'synth-res-%d' % lid
            res_loc = ('var', '$acc' if name in ('accumulate', 'count_if') else '$found', res_id)
            stx.env[res_id] = res_loc
            if name == 'accumulate':
                stx.store[res_loc] = init_v
                stx.ev('lwr', res_loc, init_v, site, 'decl')
                ids.add(res_id)
            elif name == 'count_if':
                stx.store[res_loc] = ('int', 0)
                stx.ev('lwr', res_loc, ('int', 0), site, 'decl')
                ids.add(res_id)
            elif name in ('any_of', 'all_of', 'none_of'):
                stx.store[res_loc] = ('bool', name != 'any_of')
                ids.add(res_id)
            L.assigned = ids
            if same_range:
                stx.ev('range', first[2], site)
            # ---- one arbitrary iteration
            it_st = stx.clone()
            it_st.trace = []
            self.havoc(it_st, ids, lid, 'iter')
            it_st.outer_objs = frozenset(o[2] for o in getattr(st, 'objs', []))      # helper objects that live across the iterations
            it_st.obj_reads = frozenset()
            it_st.ev('iter', lid, it_st.era)
            if same_range:
                elem = ('elem', first[2], lid)
            else:
                cur = it_st.store[it_loc]
                # loop condition it != last
                c = ('cmp', '!=', cur, last)
                ex = it_st.clone()
                ex.ev('cond', c, False, site)
                L.cond_paths.append(Path(ex.trace, None, 'exit'))
                it_st.ev('cond', c, True, site)
                it_st.ev('use', cur, 'deref', site)
                elem = ('deref', cur)
            call_args = [('TERM', elem)]
            if name == 'accumulate':
                call_args = [('TERM', res_loc), ('TERM', elem)]

            def step(stb):
                if not same_range:
                    self.write(stb, it_loc, self.adv(stb, stb.store[it_loc], 1, typeclass(qt(args[0]))), n, '++')
                return stb

            for st_b, rv_ in self.inline(lam, call_args, n, it_st):
                if name == 'for_each':
                    L.iters.append(Path(step(st_b).trace, None, 'continue', st_b))
                elif name == 'transform':
                    # *out++ = f(x)  with out = std::back_inserter(c):  c.push_back(f(x))
                    kk = st_b.fresh()
                    st_b.results[kk] = (out_ins[2], 'push_back', (rv_,), 'vector')
                    st_b.ev('call', out_ins[2], 'push_back' if out_ins[1] != 'front_inserter' else 'push_front', (rv_,), ('res', kk), site, 'vector',
                            frozenset())
                    L.iters.append(Path(step(st_b).trace, None, 'continue', st_b))
                elif name == 'accumulate':
                    self.write(st_b, res_loc, rv_, n, '=')
                    L.iters.append(Path(step(st_b).trace, None, 'continue', st_b))
                else:
                    # the callable's verdict decides: fork on it
                    truth = None
                    if isinstance(rv_, tuple) and rv_ and rv_[0] == 'bool':
                        truth = rv_[1]
                    else:
                        d = fold_cmp(rv_)
                        truth = d
                    outcomes = [(st_b, truth)] if truth is not None else None
                    if outcomes is None:
                        s_t, s_f = st_b, st_b.clone()
                        s_t.ev('cond', rv_, True, site)
                        s_f.ev('cond', rv_, False, site)
                        outcomes = [(s_t, True), (s_f, False)]
                    for s_o, tr in outcomes:
                        if name in ('find_if', 'find_if_not'):
                            hit = tr if name == 'find_if' else (not tr)
                            if hit:
                                L.iters.append(Path(s_o.trace, None, 'break', s_o))
                            else:
                                L.iters.append(Path(step(s_o).trace, None, 'continue', s_o))
                        elif name == 'count_if':
                            if tr:
                                self.write(s_o, res_loc, self.arith('+', self.load(s_o, res_loc, n), ('int', 1)), n, '++')
                            L.iters.append(Path(step(s_o).trace, None, 'continue', s_o))
                        else:
                            stop = tr if name in ('any_of', 'none_of') else (not tr)
                            if stop:
                                self.write(s_o, res_loc, ('bool', name == 'any_of'), n, '=')
                                L.iters.append(Path(s_o.trace, None, 'break', s_o))
                            else:
                                L.iters.append(Path(step(s_o).trace, None, 'continue', s_o))
            stx.ev('loop', L)
            saved_abs, saved_pres = set(stx.absent), set(stx.present)
            self.havoc(stx, ids, lid, 'post')
            self.keep_presence(stx, L, saved_abs, saved_pres)
            if name == 'for_each':
                yield stx, fv
            elif name == 'transform':
                yield stx, out_ins
            elif name in ('find_if', 'find_if_not'):
                yield stx, (self.load(stx, it_loc, n) if not same_range else ('lv', '$it', lid, 'post', it_id))
            else:
                yield stx, self.load(stx, res_loc, n)

    def e_UserDefinedLiteral(self, n, st):
        name, fid, fkind, fnode = self.callee_name(n)
        args = n['inner'][1:]
        for st2, ts in self.eval_args(args, st):
            yield st2, ('fncall', name or 'literal', tuple(ts))

    def e_CXXMemberCallExpr(self, n, st):
        callee = self.strip(n['inner'][0])
        args = n['inner'][1:]
        if callee.get('kind') != 'MemberExpr':
            yield st, self.unknown(st, 'membercall:%s' % callee.get('kind'), n)
            return
        name = callee.get('name')
        base = callee['inner'][0]
        mid = callee.get('referencedMemberDecl')
        sb = self.strip(base)
        if sb.get('kind') == 'CXXThisExpr' and getattr(st, 'this_obj', None) and st.this_obj[-1] is not None and mid not in self.cm.by_id:
            # a member function of a nested helper class calling another member of its own (`refresh()` -> `is_newest_in()`)
            for rec2 in list(self.cm.records.values()) + [r for rs in getattr(self.prog, 'helper_specs', {}).values() for r in rs]:
                if mid in getattr(rec2, 'methods', {}):
                    if mid not in self.ctx.lambdas:
                        lm = LambdaMethod(rec2.methods[mid], '%s::%s' % (self.cm.name, rec2.name))
                        lm.name = name
                        lm.qname = '%s::%s::%s' % (self.cm.name, rec2.name, name)
                        self.ctx.lambdas[mid] = lm
                    yield from self.inline(self.ctx.lambdas[mid], args, n, st, this_obj=st.this_obj[-1])
                    return
        if sb.get('kind') == 'CXXThisExpr':
            m = self.cm.by_id.get(mid)
            if m is None:
                cands = [x for x in self.cm.methods if x.name == name and len(x.params) == len(args)]
                # template member instantiation referenced by a different id: pick by arity/type
                cands2 = [x for x in cands if x.type == qt(callee)] or cands
                m = cands2[0] if cands2 else None
            if m is None or m.body is None:
                yield st, self.unknown(st, 'own method without body: %s' % name, n)
                return
            yield from self.inline(m, args, n, st)
            return
        tc = typeclass(qt(base))
        rec = self.record_of(qt(base)) if tc == 'other' else None
        if tc == 'other' and rec is None and (mid in self.cm.by_id or any(x.name == name for x in self.cm.methods)) \
                and getattr(st, 'refs', None):
            # a member function of the container called through a reference to it (`m_cache.do_access(e)` inside a helper object)
            outs = list(self.eval(base, st.clone()))
            if len(outs) == 1 and outs[0][1] in (('this',), ('deref', ('this',))):
                m = self.cm.by_id.get(mid)
                if m is None:
                    cands = [x for x in self.cm.methods if x.name == name and len(x.params) == len(args)]
                    m = cands[0] if cands else None
                if m is not None and m.body is not None:
                    yield from self.inline(m, args, n, st, this_obj=None)
                    return
        if rec is not None and mid in getattr(rec, 'methods', {}):
            # member function of a nested record (small private abstraction): inlined with `this` bound to the object
            if mid not in self.ctx.lambdas:
                lm = LambdaMethod(rec.methods[mid], '%s::%s' % (self.cm.name, rec.name))
                lm.name = name
                lm.qname = '%s::%s::%s' % (self.cm.name, rec.name, name)
                self.ctx.lambdas[mid] = lm
            for st2, recv in self.eval(base, st):
                if callee.get('isArrow') and isinstance(recv, tuple) and recv and recv[0] == 'addr':
                    recv = recv[1]
                yield from self.inline(self.ctx.lambdas[mid], args, n, st2, this_obj=recv)
            return
        for st2, recv in self.eval(base, st):
            if tc == 'lockguard':
                if name == 'try_lock':
                    # an acquisition that may fail: whether the code behind it runs locked depends on how the result is used
                    yield st2, self.unknown(st2, 'try_lock (an acquisition that may fail is not modelled)', n)
                    continue
                if name in ('lock', 'unlock', 'try_lock'):
                    st2.ev('lock' if name != 'unlock' else 'unlock', self.guard_mutex(st2, recv), site_of(n, st2), 'guard.' + name)
                    self.set_guard(st2, recv, name != 'unlock')
                    yield st2, ('void',)
                else:
                    yield st2, self.unknown(st2, 'lockguard.%s' % name, n)
                continue
            if tc == 'mutex' or (tc == 'other' and name in ('lock', 'unlock', 'try_lock') and 'mutex' in qt(base)):
                if name == 'try_lock':
                    yield st2, self.unknown(st2, 'try_lock (an acquisition that may fail is not modelled)', n)
                    continue
                if name in ('lock', 'try_lock'):
                    st2.ev('lock', recv, site_of(n, st2), 'manual')
                    st2.guards.append((-1, ('manual', recv), recv, True))
                elif name == 'unlock':
                    st2.ev('unlock', recv, site_of(n, st2), 'manual')
                    for i in range(len(st2.guards) - 1, -1, -1):
                        if st2.guards[i][2] == recv and st2.guards[i][3]:
                            g = st2.guards[i]
                            st2.guards[i] = (g[0], g[1], g[2], False)
                            break
                yield st2, ('void',)
                continue
            for st3, ts in self.eval_args(args, st2):
                yield from self.std_call(n, st3, recv, tc, name, ts, arg_nodes=args)

    def atomic_op(self, st, loc, name, ts, n):
        k = st.fresh()
        res = ('atomicval', k)
        reads = name in ('load', 'is_lock_free') or (name.startswith('operator ') and not name.startswith('operator='))
        st.ev('atomic', loc, name, tuple(ts), res, site_of(n, st), 'R' if reads else 'W')
        return res

    def std_call(self, n, st, recv, tc, name, ts, arg_nodes=None):
        s = site_of(n, st)
        if tc == 'vector' and recv in st.rangecopy and name == 'size' and not ts:
            term = ('q', 'size', st.rangecopy[recv], (), st.epoch(st.rangecopy[recv]))
            st.ev('q', term, s)
            yield st, term
            return
        if tc == 'vector' and recv in st.rangecopy and name not in ('operator[]', 'at', 'reserve', 'capacity', 'empty'):
            yield st, self.unknown(st, 'std member vector::%s on the pre-filled output container' % name, n)
            return
        if tc == 'atomic':
            yield st, self.atomic_op(st, recv, name, ts, n)
            return
        if tc == 'optional':
            cur = self.load(st, recv, n)
            known = opt_content(cur)
            if name == 'has_value':
                yield st, (('bool', known[0]) if known is not None else ('hasval', cur))
                return
            if name in ('value', 'operator*', 'operator->'):
                yield st, (known[1] if known is not None and known[0] else ('optval', cur))
                return
            if name in ('operator bool',):
                yield st, (('bool', known[0]) if known is not None else ('hasval', cur))
                return
            if name == 'reset':
                self.write(st, recv, ('global', 'nullopt'), n)
                yield st, ('void',)
                return
            if name == 'emplace':
                # o.emplace(args...): o = T(args...)
                tq = ''
                try:
                    tq = qt(n['inner'][0]['inner'][0])
                except Exception:
                    pass
                rr = root_of(recv)
                in_local_result = (rr[0] == 'res' and isinstance(st.results.get(rr[1], (None,))[0], tuple)
                                   and st.results[rr[1]][0][:1] == ('var',))      # an element of the local output container
                if len(ts) == 1 and rr[0] not in ('local',) and not in_local_result:
                    self.write(st, recv, ts[0], n)          # same representation as `o = v` on a stored optional
                elif len(ts) == 1:
                    self.write(st, recv, ('ctor', tq or 'std::optional<?>', (ts[0],)), n)
                else:
                    inner_t = re.sub(r'^(const\s+)?std::optional<(.*)>\s*&?$', r'\2', tq or '')
                    payload = ('pair', ts[0], ts[1]) if len(ts) == 2 and inner_t.startswith('std::pair<') else ('ctor', inner_t, tuple(ts))
                    self.write(st, recv, ('ctor', tq or 'std::optional<?>', (payload,)), n)
                yield st, ('optval', self.load(st, recv, n))
                return
            if name == 'value_or' and len(ts) == 1:
                if known is not None:
                    yield st, (known[1] if known[0] else ts[0])
                    return
        if tc == 'time_point' and name == 'time_since_epoch' and not ts:
            # the duration since the clock's epoch: order- and arithmetic-isomorphic to the time point itself
            yield st, self.load(st, recv, n)
            return
        if tc == 'duration' and name == 'count' and not ts:
            base = n['inner'][0]['inner'][0] if n.get('inner') and n['inner'][0].get('inner') else {}
            bt = (base.get('type', {}).get('desugaredQualType') or qt(base) or '')
            v = self.load(st, recv, n)
            if re.search(r'ratio<\s*1\s*,\s*1000000000\s*>', bt) or (isinstance(v, tuple) and v and v[0] in ('now',)):
                yield st, v          # ticks of the clock's own duration type: the same ordering as the time points
                return
        if tc == 'node_handle':
            hv = self.load(st, recv, n)
            if isinstance(hv, tuple) and hv and hv[0] == 'nodeh' and name in ('key', 'mapped', 'value'):
                yield st, ('fld', hv, 'key' if name in ('key', 'value') else 'mapped')
                return
            if name in ('empty', 'operator bool'):
                yield st, ('bool', name != 'empty')
                return
        if tc in ('multimap', 'map', 'umap') and name == 'extract' and len(ts) == 1 and root_of(recv)[0] in ('field', 'this'):
            # node = m.extract(it): the entry leaves the container (like erase(it)); key and mapped value travel in the handle
            it = ts[0]
            node = ('deref', it)
            key0 = self.load(st, self.project(st, node, 'first'), n)
            map0 = self.load(st, self.project(st, node, 'second'), n)
            k = st.fresh()
            st.results[k] = (recv, 'erase', (it,), tc)
            st.ev('use', it, 'arg:extract', s)
            st.ev('call', recv, 'erase', (it,), ('res', k), s, tc, frozenset())
            st.bump(recv, tc)
            st.decided.clear()
            st.present = set(x for x in st.present if x[0] != recv)
            h = ('nodeh', k)
            st.store[('fld', h, 'key')] = key0
            st.store[('fld', h, 'mapped')] = map0
            yield st, h
            return
        if tc == 'multimap' and root_of(recv)[0] in ('field', 'this') and len(ts) >= 2 and (
                name == 'emplace_hint' or (name == 'insert' and typeclass(qt((arg_nodes or [{}])[0] or {})) in ITERATORS)):
            # among equal keys a hinted insertion lands next to the hint: only hints that give the same place as plain insertion
            # (upper_bound of the key being inserted, or end(), which falls back to it) are modelled
            hint = ts[0]
            newkey = None
            if name == 'emplace_hint':
                newkey = ts[1]
            elif isinstance(ts[-1], tuple) and ts[-1][:1] == ('nodeh',):
                newkey = self.load(st, ('fld', ts[-1], 'key'), n)
            elif isinstance(ts[-1], tuple) and ts[-1][:1] == ('pair',):
                newkey = ts[-1][1]
            fine = isinstance(hint, tuple) and len(hint) > 3 and hint[0] == 'q' and hint[2] == recv and (
                hint[1] in ('end', 'cend') or (hint[1] == 'upper_bound' and len(hint[3]) == 1 and newkey is not None
                                               and key_norm(hint[3][0]) == key_norm(newkey)))
            if not fine:
                self.unknown(st, 'hinted insertion into a multimap with a computed hint (place among equal keys not modelled)', n)
        if tc in ('multimap', 'map', 'umap') and name == 'insert' and ts and isinstance(ts[-1], tuple) and ts[-1] and ts[-1][0] == 'nodeh' \
                and root_of(recv)[0] in ('field', 'this'):
            # m.insert(std::move(node)): the entry (key, mapped) as they stand in the handle now enters the container
            h = ts[-1]
            kk = self.load(st, ('fld', h, 'key'), n)
            mm = self.load(st, ('fld', h, 'mapped'), n)
            yield from self.std_call(n, st, recv, tc, 'emplace', [kk, mm], arg_nodes=None)
            return
        if tc == 'list' and name in ('back', 'front') and not ts:
            # a list of node records: l.back() is *std::prev(l.end()), l.front() is *l.begin() (the forms the rest of the code uses)
            bt = ''
            try:
                bt = qt(n['inner'][0]['inner'][0])
            except Exception:
                pass
            et = re.sub(r'[>\s]+$', '', bt).split('::')[-1]
            if et in self.cm.records:
                if name == 'back':
                    endq = ('q', 'end', recv, (), None)
                    st.ev('q', endq, s)
                    it = self.adv(st, endq, -1, 'list_it')
                else:
                    it = ('q', 'begin', recv, (), st.epoch(recv))
                    st.ev('q', it, s)
                st.ev('use', it, 'deref', s)
                yield st, ('deref', it)
                return
        if tc == 'umap' and name == 'max_load_factor' and ts:
            model = ('mut', 'W', frozenset(['rehash_policy']))
        else:
            model = lookup(tc, name)
        if model is None:
            if tc in ('string', 'other', 'pair', 'tuple', 'time_point', 'duration'):
                # member of a value / user type: opaque but harmless projection
                yield st, ('mcall', name, recv, tuple(ts))
                return
            if tc in ('rng', 'dist', 'randdev') or (tc in CONTAINERS and root_of(recv)[0] in ('field', 'this')):
                # a member the model does not list, called on a data member: conservatively a mutation of that member
                k = st.fresh()
                res = ('res', k)
                st.results[k] = (recv, name, tuple(ts), tc)
                st.ev('call', recv, name, tuple(ts), res, s, tc, frozenset(['unmodelled']))
                st.bump(recv, tc)
                st.decided.clear()
                yield st, res
                return
            yield st, self.unknown(st, 'std member %s::%s' % (tc, name), n)
            return
        kind, acc, flags = model
        for t, an in zip(ts, arg_nodes or []):
            if typeclass(qt(an)) in ITERATORS:
                st.ev('use', t, 'arg:' + name, s)
        if tc == 'list' and name == 'splice' and len(ts) >= 2 and isinstance(ts[1], tuple):
            ra, rb = root_of(recv)[0], root_of(ts[1])[0]
            if ra in ('field', 'this') and rb not in ('field', 'this', 'param'):
                # nodes adopted from a LOCAL list (parked there earlier, or built there): entries enter the container the model tracks
                # (positions, deadline order, back pointers) from outside it - no semantics for that here.  The other direction alone
                # (storage detached into a local so that it is torn down after the lock is released) removes them and is modelled.
                yield st, self.unknown(st, 'list nodes moved between a data member and a local std::list (splice)', n)
                return
        if tc == 'list' and name == 'splice' and len(ts) == 4 and isinstance(ts[3], tuple) and ts[3][:2] == ('adv', 1) \
                and len(ts[3]) > 2 and ts[3][2] == ts[2]:
            # splice(pos, l, first, std::next(first)): the one-node range [first, next(first)) is the single-node overload
            yield from self.std_call(n, st, recv, tc, name, list(ts[:3]), arg_nodes=(arg_nodes or [])[:3])
            return
        if tc == 'map' and name == 'equal_range' and len(ts) == 1 and root_of(recv)[0] in ('field', 'this'):
            # unique keys: equal_range(k) is [find(k), next(find(k))) when k is present, otherwise the empty range at the place k would
            # be inserted ([lower_bound(k), lower_bound(k)))
            for st2, lb in self.std_call(n, st, recv, tc, 'lower_bound', ts, arg_nodes=arg_nodes):
                if isinstance(lb, tuple) and lb[:2] == ('q', 'find'):
                    yield st2, ('pair', lb, self.adv(st2, lb, 1, 'tree_it'))
                else:
                    yield st2, ('pair', lb, lb)
            return
        if tc == 'map' and name == 'lower_bound' and len(ts) == 1 and root_of(recv)[0] in ('field', 'this'):
            # unique keys: lower_bound(k) is find(k) when k is present, otherwise the first entry with a greater key (or end())
            mk = (recv, key_norm(ts[0]))
            findt = ('q', 'find', recv, (ts[0],), st.epoch(recv))
            endt = ('q', 'end', recv, (), None)
            lbt = ('q', 'lower_bound', recv, (ts[0],), st.epoch(recv))
            if mk in st.present:
                st.ev('q', findt, s)
                yield st, findt
            elif mk in st.absent:
                st.ev('q', lbt, s)
                yield st, lbt
            else:
                sp = st.clone()
                sp.ev('q', findt, s)
                sp.ev('cond', ('cmp', '!=', findt, endt), True, s)
                sp.present.add(mk)
                yield sp, findt
                st.ev('q', findt, s)
                st.ev('cond', ('cmp', '!=', findt, endt), False, s)
                st.absent.add(mk)
                st.ev('q', lbt, s)
                yield st, lbt
            return
        if kind in ('pure', 'stable'):
            ep = None if kind == 'stable' else st.epoch(recv)
            term = ('q', name, recv, tuple(ts), ep)
            st.ev('q', term, s)
            yield st, term
            return
        keyed = None
        if tc in ('umap', 'map') and root_of(recv)[0] in ('field', 'this') and name in ('emplace', 'try_emplace', 'insert', 'emplace_hint') and ts:
            a = list(ts)
            if name == 'emplace_hint' or (name in ('insert', 'try_emplace') and len(a) >= 2 and typeclass(qt((arg_nodes or [None])[0] or {})) in ITERATORS):
                a = a[1:]
            if len(a) == 1 and isinstance(a[0], tuple) and a[0] and a[0][0] == 'pair':
                keyed = a[0][1]
            elif len(a) == 1 and isinstance(a[0], tuple) and a[0] and a[0][0] == 'ctor' and len(a[0]) > 2 and len(a[0][2]) == 2:
                keyed = a[0][2][0]
            elif a:
                keyed = a[0]
        if keyed is not None:
            # m.emplace(k, ...): inserts only if k is absent, otherwise hands back the existing entry and changes nothing
            mk = (recv, key_norm(keyed))
            findt = ('q', 'find', recv, (keyed,), st.epoch(recv))
            endt = ('q', 'end', recv, (), None)
            returns_pair = name != 'emplace_hint' and not (name == 'insert' and len(ts) == 2)
            branches = []
            if mk in st.present:
                branches = [(st, True)]
            elif mk in st.absent:
                branches = [(st, False)]
            else:
                sp = st.clone()
                sp.ev('q', findt, s)
                sp.ev('cond', ('cmp', '!=', findt, endt), True, s)
                sp.present.add(mk)
                st.ev('q', findt, s)
                st.ev('cond', ('cmp', '!=', findt, endt), False, s)
                branches = [(sp, True), (st, False)]
            for sb, was_present in branches:
                if was_present:
                    yield sb, (('pair', findt, ('bool', False)) if returns_pair else findt)
                    continue
                k = sb.fresh()
                res = ('res', k)
                sb.results[k] = (recv, name, tuple(ts), tc)
                sb.ev('call', recv, name, tuple(ts), res, s, tc, flags)
                sb.bump(recv, tc)
                sb.decided.clear()
                sb.absent.discard(mk)
                sb.present.add(mk)
                if returns_pair:
                    sb.store[('fld', res, 'second')] = ('bool', True)
                yield sb, res
            return
        k = st.fresh()
        res = ('res', k)
        st.results[k] = (recv, name, tuple(ts), tc)
        st.ev('call', recv, name, tuple(ts), res, s, tc, flags)
        st.bump(recv, tc)
        st.decided.clear()
        if tc in ('umap', 'map'):
            # an erase / clear / extract may remove any key: what was present may be gone (what was absent stays absent)
            st.present = set(x for x in st.present if x[0] != recv)
            if name in ('operator[]', 'insert_or_assign', 'merge', 'swap'):
                st.absent = set(x for x in st.absent if x[0] != recv)
        yield st, res

    # ------------------------------------------------------------------ locks
    def guard_mutex(self, st, guard_loc):
        for g in st.guards:
            if g[1] == guard_loc:
                return g[2]
        return ('unknown-mutex',)

    def set_guard(self, st, guard_loc, held):
        for i, g in enumerate(st.guards):
            if g[1] == guard_loc:
                st.guards[i] = (g[0], g[1], g[2], held)

    def temp_guard(self, n, ctor, st):
        """a lock guard constructed as a temporary: acquired and released in the same full expression"""
        args = [c for c in ctor.get('inner', []) if c.get('kind')] if ctor is not n else [c for c in n.get('inner', []) if c.get('kind')]
        for st2, ts in self.eval_args(args[:1], st, as_value=False):
            m = ts[0] if ts else ('unknown-mutex',)
            st2.ev('lock', m, site_of(n, st2), 'temporary')
            st2.ev('unlock', m, site_of(n, st2), 'temporary')
            yield st2, ('ctor', qt(n), tuple(ts))

    def declare_guard(self, v, st):
        init = [c for c in v.get('inner', []) if c.get('kind')]
        loc = ('var', v.get('name'), v['id'])
        st.env[v['id']] = loc
        ctor = self.strip(init[0]) if init else None
        if ctor is not None and ctor.get('kind') in ('CXXMemberCallExpr', 'CallExpr'):
            # auto guard = lock_helper();  -- a private helper that returns the guard it took (ownership moves to this variable)
            for st2, gv in self.rv(ctor, st):
                if isinstance(gv, tuple) and gv and gv[0] == 'guardval':
                    m, held, emitted = gv[1], gv[2], gv[3]
                    if held and not emitted:
                        if any(g[2] == m and g[3] for g in st2.guards):
                            st2.ev('relock', m, site_of(v, st2))
                        st2.ev('lock', m, site_of(v, st2), 'guard')
                    st2.guards.append((st2.scope, loc, m, held))
                else:
                    self.unknown(st2, 'lock guard initialised from %s' % ctor.get('kind'), v)
                    st2.guards.append((st2.scope, loc, ('unknown-mutex',), False))
                yield st2
            return
        args = [c for c in (ctor or {}).get('inner', []) if c.get('kind')] if ctor else []
        deferred = len(args) > 1
        if not args:
            st.guards.append((st.scope, loc, ('unknown-mutex',), False))
            yield st
            return
        for st2, ts in self.eval_args(args[:1], st, as_value=False):
            m = ts[0]
            held = not deferred
            if held:
                if any(g[2] == m and g[3] for g in st2.guards):
                    st2.ev('relock', m, site_of(v, st2))
                st2.ev('lock', m, site_of(v, st2), 'guard')
            st2.guards.append((st2.scope, loc, m, held))
            yield st2

    def release_scope(self, st, depth, n):
        keep = []
        for g in reversed(st.guards):
            if g[0] >= depth and g[0] != -1:
                if g[3]:
                    st.ev('unlock', g[2], site_of(n, st), 'scope')
            else:
                keep.append(g)
        st.guards = list(reversed(keep))

    # ------------------------------------------------------------------ inlining
    def inline(self, m, args, n, st, this_obj=None):
        self.inline_count += 1
        if len(st.fn_stack) >= MAX_DEPTH or m.qname in st.fn_stack[1:] and st.fn_stack.count(m.qname) > 1:
            yield st, self.unknown(st, 'inline depth/recursion at %s' % m.qname, n)
            return
        params = m.params

        def bind(i, st, binds):
            if i == len(params):
                yield st, binds
                return
            p = params[i]
            pt = p['type'].get('qualType', '')
            a = args[i] if i < len(args) else None
            if isinstance(a, tuple) and a and a[0] == 'TERM':
                is_ref = pt.rstrip().endswith('&')
                if is_ref:
                    yield from bind(i + 1, st, binds + [(p, 'ref', a[1])])
                else:
                    yield from bind(i + 1, st, binds + [(p, 'val', self.load(st, a[1], n))])
                return
            if a is None or a.get('kind') == 'CXXDefaultArgExpr':
                init = [c for c in p.get('inner', []) if c.get('kind') and not c['kind'].endswith('Comment')]
                if not init:
                    yield from bind(i + 1, st, binds + [(p, 'val', ('default',))])
                    return
                a = init[0]
            is_ref = pt.rstrip().endswith('&')
            if is_ref:
                for st2, t in self.eval(a, st):
                    if a.get('valueCategory') == 'prvalue':
                        tmp = ('var', '$tmp', st2.fresh())
                        st2.store[tmp] = t
                        t = tmp
                    yield from bind(i + 1, st2, binds + [(p, 'ref', t)])
            else:
                for st2, t in self.rv(a, st):
                    yield from bind(i + 1, st2, binds + [(p, 'val', t)])

        for st2, binds in bind(0, st, []):
            saved_env = st2.env
            st2.env = dict(saved_env)
            for p, how, t in binds:
                if how == 'ref':
                    st2.env[p['id']] = t
                else:
                    loc = ('var', p.get('name'), st2.fresh())
                    st2.store[loc] = t
                    st2.env[p['id']] = loc
            st2.ev('enter', m.qname, site_of(n, st2), m.key())
            st2.fn_stack.append(m.qname)
            # arguments were evaluated in the caller's context; only the body sees the callee's `this`
            st2.this_obj = list(getattr(st2, 'this_obj', [])) + [this_obj]
            rt = (m.node.get('type', {}).get('qualType', '') or '')
            rt = rt.rsplit('->', 1)[1] if '->' in rt else rt.split('(')[0]
            st2.retref = st2.retref + [rt.strip().endswith('&')]
            if getattr(m, 'inits', None) and this_obj is not None:
                okc = all(self.ctor_init_obj(ini, st2, this_obj, m.rec) for ini in m.inits)
                if not okc:
                    self.unknown(st2, 'constructor of %s (member initialiser not modelled)' % m.rec.name, n)
            for st3, flow in self.exec(m.body, st2):
                st3.fn_stack.pop()
                st3.retref = st3.retref[:-1]
                st3.this_obj = list(st3.this_obj[:-1])
                st3.ev('leave', m.qname)
                st3.env = dict(saved_env)
                if flow and flow[0] == 'ret':
                    yield st3, flow[1]
                else:
                    yield st3, ('void',)

    # ------------------------------------------------------------------ conditions
    def cond(self, n, st):
        n = self.strip(n)
        k = n.get('kind')
        if k == 'BinaryOperator' and n['opcode'] in ('&&', '||'):
            l, r = n['inner']
            for st2, tl in self.cond(l, st):
                if n['opcode'] == '&&':
                    if not tl:
                        yield st2, False
                    else:
                        yield from self.cond(r, st2)
                else:
                    if tl:
                        yield st2, True
                    else:
                        yield from self.cond(r, st2)
            return
        if k == 'UnaryOperator' and n['opcode'] == '!':
            for st2, t in self.cond(n['inner'][0], st):
                yield st2, (not t)
            return
        if k == 'ImplicitCastExpr':
            # LValueToRValue of a boolean variable
            pass
        for st2, v in self.rv(n, st):
            if isinstance(v, tuple) and v[0] == 'bool':
                yield st2, v[1]
                continue
            folded = fold_cmp(v)
            if folded is not None:
                yield st2, folded
                continue
            if isinstance(v, tuple) and v and v[0] == 'addr':
                yield st2, True          # the address of an object is never null
                continue
            if v == ('int', 0):
                yield st2, False
                continue
            if isinstance(v, tuple) and v[0] == 'not':
                v = v[1]
                inv = True
            else:
                inv = False
            if v in st2.decided:
                yield st2, (st2.decided[v] != inv)
                continue
            if isinstance(v, tuple) and v and v[0] == 'keyless':
                kl = self.keyless_known(st2, v)
                if kl is not None:
                    yield st2, (kl != inv)
                    continue
            s = site_of(n, st2)
            pk = presence_key(v)
            if pk is not None:
                # known from an earlier test of the same key (no insertion of it / no erase since): not a new decision
                mk, pol = pk
                if mk in st2.absent:
                    yield st2, ((not pol) != inv)
                    continue
                if mk in st2.present:
                    yield st2, (pol != inv)
                    continue
            stt = st2.clone()
            stt.ev('cond', v, True, s)
            stt.decided[v] = True
            if pk is not None:
                (stt.present if pk[1] else stt.absent).add(pk[0])
            yield stt, (True != inv)
            st2.ev('cond', v, False, s)
            st2.decided[v] = False
            if pk is not None:
                (st2.absent if pk[1] else st2.present).add(pk[0])
            yield st2, (False != inv)

    # ------------------------------------------------------------------ statements
    def exec(self, n, st):
        k = n.get('kind')
        h = getattr(self, 's_' + str(k), None)
        if h is not None:
            yield from h(n, st)
            return
        if k and (k.endswith('Expr') or k.endswith('Operator') or k.endswith('Literal') or k in PASS_THROUGH):
            for st2, _ in self.eval(n, st):
                yield st2, None
            return
        self.unknown(st, 'stmt:%s' % k, n)
        yield st, None

    def s_CompoundStmt(self, n, st):
        st.scope += 1
        depth = st.scope
        stmts = [c for c in n.get('inner', []) if c.get('kind')]

        def run(i, st):
            if i == len(stmts):
                yield st, None
                return
            for st2, flow in self.exec(stmts[i], st):
                if flow is not None:
                    yield st2, flow
                else:
                    yield from run(i + 1, st2)

        for st2, flow in run(0, st):
            for st3 in self.leave_scope(st2, depth, n):
                st3.scope = depth - 1
                yield st3, flow

    def leave_scope(self, st, depth, n):
        """end of a block: lock guards are released and the destructors of the library's own helper objects (scope guards) run, in
        reverse order of declaration"""
        mine = [o for o in getattr(st, 'objs', []) if o[0] >= depth]
        if not mine:
            self.release_scope(st, depth, n)
            yield st
            return
        # actions from the last declared to the first: ('obj', o) / ('guard', index)
        gidx = [i for i, g in enumerate(st.guards) if g[0] >= depth and g[0] != -1]
        actions = []
        objs = sorted(mine, key=lambda o: (o[1], st.objs.index(o)))
        for i in reversed(range(len(st.guards) + 1)):
            for o in reversed([o for o in objs if o[1] == i]):
                actions.append(('obj', o))
            if i - 1 in gidx:
                actions.append(('guard', i - 1))

        def run(k, st):
            if k == len(actions):
                self.release_scope(st, depth, n)
                st.objs = [o for o in st.objs if o[0] < depth]
                yield st
                return
            kind, x = actions[k]
            if kind == 'guard':
                g = st.guards[x]
                if g[3]:
                    st.ev('unlock', g[2], site_of(n, st), 'scope')
                    st.guards[x] = (g[0], g[1], g[2], False)
                yield from run(k + 1, st)
                return
            st.objs = [o for o in st.objs if o is not x and o != x]
            rec = x[3] if not isinstance(x[3], str) else self.cm.records.get(x[3])
            lm = self.dtor_method(rec)
            if lm is None:
                self.unknown(st, 'destructor of %s not found' % (x[3] if isinstance(x[3], str) else x[3].name), n)
                yield from run(k + 1, st)
                return
            for st2, _ in self.inline(lm, [], n, st, this_obj=x[2]):
                yield from run(k + 1, st2)
        yield from run(0, st)

    def dtor_method(self, rec):
        if rec is None:
            return None
        key = ('dtor', rec.id)
        if key not in self.ctx.lambdas:
            d = next((c for c in rec.node.get('inner', []) if c.get('kind') == 'CXXDestructorDecl' and not c.get('isImplicit')), None)
            if d is None:
                return None
            lm = LambdaMethod(d, '%s::%s' % (self.cm.name, rec.name))
            lm.name = '~' + str(rec.name)
            lm.qname = '%s::%s::~%s' % (self.cm.name, rec.name, rec.name)
            self.ctx.lambdas[key] = lm
        return self.ctx.lambdas[key]

    def construct_guard_object(self, v, st, rec):
        """`recency_guard touch{*this, e};`: run the constructor's member initialisers (reference members are bound, value members
        stored) and its body; the object is destroyed at the end of its block (leave_scope).  None if the shape is not supported"""
        init = [c for c in v.get('inner', []) if c.get('kind') and not c['kind'].endswith('Comment')]
        if len(init) != 1:
            return None
        ce = init[0]
        while ce.get('kind') in ('ExprWithCleanups', 'CXXBindTemporaryExpr', 'MaterializeTemporaryExpr') or \
                (ce.get('kind') == 'ImplicitCastExpr' and ce.get('castKind') == 'NoOp'):
            sub = [c for c in ce.get('inner', []) if isinstance(c, dict) and c.get('kind')]
            if len(sub) != 1:
                return None
            ce = sub[0]
        if ce.get('kind') in ('CallExpr', 'CXXMemberCallExpr'):
            # `auto g = detail::on_leave(f);` / `auto g = recount_on_leave();`: a factory of the library returns the guard by value
            # (constructed in place by the return statement, through any number of such factories)
            outs = list(self.rv(ce, st.clone()))
            if len(outs) != 1:
                return None
            st2, val = outs[0]
            if not (isinstance(val, tuple) and val[:1] == ('ctor',) and len(val) == 3):
                # scope_exit<F>{std::move(f)} written as a functional cast evaluates to its single argument
                val = ('ctor', None, (val,))
            st.trace, st.store, st.env = st2.trace, st2.store, st.env
            st.captures = st2.captures
            args = []
            for vterm in val[2]:
                tmp = ('var', '$arg', st.fresh())
                st.store[tmp] = vterm
                args.append(('TERM', tmp))
            ce = {'ctorType': {}, 'kind': 'CXXConstructExpr'}
        elif ce.get('kind') not in ('CXXConstructExpr', 'CXXTemporaryObjectExpr'):
            return None
        else:
            args = [c for c in ce.get('inner', []) if isinstance(c, dict) and c.get('kind')]
        ctors = [c for c in rec.node.get('inner', []) if c.get('kind') == 'CXXConstructorDecl' and not c.get('isImplicit')
                 and not c.get('explicitlyDeleted')]
        cands = []
        for c in ctors:
            ps = [p for p in c.get('inner', []) if p.get('kind') == 'ParmVarDecl']
            need = len([p for p in ps if not [x for x in p.get('inner', []) if isinstance(x, dict) and x.get('kind') and not x['kind'].endswith('Comment')]])
            if need <= len(args) <= len(ps) and (c.get('type', {}).get('qualType') == ce.get('ctorType', {}).get('qualType') or len(ctors) == 1
                                                 or not ce.get('ctorType')):
                if not ce.get('ctorType') and len(ps) == 1 and rec.name and re.search(r'\b%s\b' % re.escape(str(rec.name)), (ps[0].get('type') or {}).get('qualType') or ''):
                    continue        # copy / move constructor
                cands.append(c)
        if len(cands) != 1:
            return None
        c = cands[0]
        key = ('ctor', c['id'])
        if key not in self.ctx.lambdas:
            lm = LambdaMethod(c, '%s::%s' % (self.cm.name, rec.name))
            lm.name = str(rec.name)
            lm.qname = '%s::%s::%s' % (self.cm.name, rec.name, rec.name)
            lm.inits = [x for x in c.get('inner', []) if x.get('kind') == 'CXXCtorInitializer']
            lm.rec = rec
            if lm.body is None:
                lm.body = {'kind': 'CompoundStmt', 'inner': []}
            self.ctx.lambdas[key] = lm
        return self.ctx.lambdas[key], args

    def ctor_init_obj(self, ini, st, obj, rec):
        tgt = ini.get('anyInit') or {}
        name = tgt.get('name')
        inner = [c for c in ini.get('inner', []) if c.get('kind')]
        if name is None or not inner:
            return True
        f = next((x for x in rec.fields if x.name == name), None)
        if f is None:
            return False
        loc = ('fld', obj, name)
        is_ref = (f.type or '').rstrip().endswith('&')
        if inner[0].get('kind') == 'CXXDefaultInitExpr' and not [c for c in inner[0].get('inner', []) if c.get('kind')]:
            fin = [c for c in f.node.get('inner', []) if isinstance(c, dict) and c.get('kind') and not c['kind'].endswith('Comment')]
            if not fin:
                return True
            inner = fin
        if is_ref:
            outs = list(self.eval(inner[0], st))
            if len(outs) != 1:
                return False
            st2, t = outs[0]
            st.trace, st.store = st2.trace, st2.store
            st.refs[loc] = t
            return True
        outs = list(self.rv(inner[0], st)) if inner[0].get('valueCategory') != 'prvalue' else list(self.eval(inner[0], st))
        if len(outs) != 1:
            return False
        st2, t = outs[0]
        st.trace, st.store = st2.trace, st2.store
        st.store[loc] = t
        return True

    def s_NullStmt(self, n, st):
        yield st, None

    def s_DeclStmt(self, n, st):
        decls = [c for c in n.get('inner', []) if c.get('kind')]

        def run(i, st):
            if i == len(decls):
                yield st
                return
            for st2 in self.declare(decls[i], st):
                yield from run(i + 1, st2)

        for st2 in run(0, st):
            yield st2, None

    def declare(self, v, st):
        k = v.get('kind')
        if k == 'DecompositionDecl':
            yield from self.declare_decomp(v, st)
            return
        if k != 'VarDecl':
            if k in ('TypedefDecl', 'TypeAliasDecl', 'UsingDecl', 'StaticAssertDecl', 'CXXRecordDecl', 'EnumDecl'):
                yield st
                return
            self.unknown(st, 'decl:%s' % k, v)
            yield st
            return
        t = v['type'].get('desugaredQualType') or v['type'].get('qualType', '')
        if t.replace('const ', '').startswith('std::shared_lock<'):
            # reader / writer locking: which operations may share the lock is a protocol of its own (C06 / C07 are written for one
            # exclusive critical section per call)
            self.unknown(st, 'std::shared_lock (reader lock on a shared mutex) is not modelled', v)
            yield st
            return
        if typeclass(t) == 'lockguard':
            yield from self.declare_guard(v, st)
            return
        if not v['type'].get('qualType', '').rstrip().endswith('&') and not v['type'].get('qualType', '').rstrip().endswith('*'):
            rec0 = self.record_of(t) if typeclass(t) == 'other' else None
            if rec0 is not None and getattr(rec0, 'dtor_body', None) is not None:
                # a scope guard of the library's own: its destructor does part of the operation when the scope is left
                built = self.construct_guard_object(v, st, rec0)
                if built is None or any(fn.endswith('::~%s' % rec0.name) for fn in st.fn_stack):
                    self.unknown(st, 'local object of %s whose destructor does work at scope exit (scope guard) is not modelled' % rec0.name, v)
                else:
                    lm, cargs = built
                    obj = ('var', v.get('name'), v['id'])
                    for st2, _ in self.inline(lm, cargs, v, st, this_obj=obj):
                        st2.env[v['id']] = obj
                        st2.objs = list(st2.objs) + [(st2.scope, len(st2.guards), obj, rec0.name)]
                        yield st2
                    return
            elif rec0 is None and typeclass(t) == 'other':
                td = (v['type'].get('desugaredQualType') or t or '')
                hit = next((c for c in getattr(self.prog, 'dtor_classes', ()) if re.search(r'cappuccino::(\w+::)*%s\b' % re.escape(c), td)), None)
                if hit is not None:
                    specs = getattr(self.prog, 'helper_specs', {}).get(hit, [])
                    lam = re.findall(r'\(lambda at [^)]*\)', td)
                    pick = [r for r in specs if not lam or any(l in (fl.type or '') or l in (fl.node.get('type', {}).get('desugaredQualType') or '')
                                                               for fl in r.fields for l in lam)]
                    built = self.construct_guard_object(v, st, pick[0]) if len(pick) == 1 else None
                    if built is None or any(fn.endswith('::~%s' % hit) for fn in st.fn_stack):
                        self.unknown(st, 'local object of %s whose destructor does work at scope exit (scope guard) is not modelled' % hit, v)
                    else:
                        lm, cargs = built
                        obj = ('var', v.get('name'), v['id'])
                        for st2, _ in self.inline(lm, cargs, v, st, this_obj=obj):
                            st2.env[v['id']] = obj
                            st2.objs = list(st2.objs) + [(st2.scope, len(st2.guards), obj, pick[0])]
                            yield st2
                        return
        init = [c for c in v.get('inner', []) if c.get('kind') and not c['kind'].endswith('Comment')]
        is_ref = v['type'].get('qualType', '').rstrip().endswith('&')
        if is_ref and init:
            for st2, t2 in self.eval(init[0], st):
                if init[0].get('valueCategory') == 'prvalue':
                    tmp = ('var', v.get('name'), v['id'])
                    st2.store[tmp] = t2
                    t2 = tmp
                st2.env[v['id']] = t2
                yield st2
            return
        loc = ('var', v.get('name'), v['id'])
        if not init:
            st.env[v['id']] = loc
            st.store.pop(loc, None)
            yield st
            return
        persistent = (v.get('storageClass') == 'static' or v.get('tls')) and not v.get('constexpr')
        if t.replace('const ', '').strip() == 'bool' and not persistent and self.is_bool_expr(init[0]):
            # bool flag = (a != b);  decided here, one branch per outcome (same behaviour as testing the expression where the flag is used)
            for st2, truth in self.cond(self.bool_core(init[0]), st):
                st2.env[v['id']] = loc
                st2.store[loc] = ('bool', truth)
                st2.ev('lwr', loc, ('bool', truth), site_of(v, st2), 'decl')
                yield st2
            return
        for st2, t2 in self.rv(init[0], st):
            if persistent and not (isinstance(t2, tuple) and t2 and t2[0] in ('int', 'str', 'float', 'bool', 'enum')):
                # a function-local static is initialised by the first call only: what it holds now is whatever earlier calls
                # (on any object) left there
                t2 = ('persistent', v.get('name'), v['id'])
            st2.env[v['id']] = loc
            st2.store[loc] = t2
            st2.ev('lwr', loc, t2, site_of(v, st2), 'decl')
            yield st2

    def bool_core(self, x):
        x = self.strip(x)
        while x.get('kind') == 'InitListExpr' and len([c for c in x.get('inner', []) if c.get('kind')]) == 1:
            x = self.strip([c for c in x['inner'] if c.get('kind')][0])
        return x

    def is_bool_expr(self, x):
        x = self.bool_core(x)
        k = x.get('kind')
        if k == 'BinaryOperator':
            return x.get('opcode') in ('==', '!=', '<', '>', '<=', '>=', '&&', '||')
        if k == 'UnaryOperator':
            return x.get('opcode') == '!'
        if k == 'CXXOperatorCallExpr':
            return (self.callee_name(x)[0] or '') in ('operator==', 'operator!=', 'operator<', 'operator>', 'operator<=', 'operator>=')
        return False

    def declare_decomp(self, v, st):
        init = [c for c in v.get('inner', []) if c.get('kind') and c['kind'] != 'BindingDecl']
        binds = [c for c in v.get('inner', []) if c.get('kind') == 'BindingDecl']
        is_ref = v['type'].get('qualType', '').rstrip().endswith('&')
        for st2, b in (self.eval(init[0], st) if init else [(st, ('undef',))]):
            copy_from_loc = False
            if not is_ref:
                if init and init[0].get('valueCategory') != 'prvalue' and isinstance(b, tuple) and b and b[0] in ('deref', 'idx', 'fld', 'elem', 'q', 'var'):
                    # a copy of an object that lives somewhere: members are read from that object now, then live in the copy
                    copy_from_loc = True
                    base = b
                else:
                    b = self.load(st2, b, v) if init and init[0].get('valueCategory') != 'prvalue' else b
                    if isinstance(b, tuple) and b and b[0] == 'ld' and b[1] == st2.era and isinstance(b[2], tuple) and b[2][0] in ('deref', 'idx', 'elem'):
                        # copy-constructed from an object read just now
                        copy_from_loc = True
                        base = b[2]
                    else:
                        tmp = ('var', '$decomp', v['id'])
                        st2.store[tmp] = b
                        base = b
            else:
                base = b
            bt = typeclass(qt(init[0])) if init else 'other'
            st2.env[v['id']] = base
            for i, bd in enumerate(binds):
                inner = [c for c in bd.get('inner', []) if c.get('kind')]
                idx = i
                member = None
                if inner:
                    it = self.strip(inner[0])
                    m = re.search(r'tuple_element<(\d+)', it.get('type', {}).get('qualType', ''))
                    if m:
                        idx = int(m.group(1))
                    elif it.get('kind') == 'MemberExpr':
                        member = it.get('name')
                if member is not None:
                    term = self.project(st2, base, member)
                elif bt == 'pair' or (isinstance(base, tuple) and base[0] == 'pair') or len(binds) == 2 and 'pair<' in qt(v):
                    term = self.project(st2, base, 'first' if idx == 0 else 'second')
                else:
                    term = ('get', idx, base)
                if copy_from_loc:
                    cp = ('fld', ('var', '$decomp', v['id']), 'm%d' % idx)
                    st2.store[cp] = self.load(st2, term, v)
                    term = cp
                if isinstance(term, tuple) and term and term[0] == 'guardval':
                    # `const auto [guard, now] = lock_and_stamp();`: the binding owns the lock until the end of this scope
                    gloc = ('var', bd.get('name'), bd['id'])
                    mtx, held, emitted = term[1], term[2], term[3]
                    if held and not emitted:
                        st2.ev('lock', mtx, site_of(v, st2), 'guard')
                    st2.guards.append((st2.scope, gloc, mtx, held))
                    term = gloc
                st2.env[bd['id']] = term
                if inner and inner[0].get('kind') == 'DeclRefExpr':
                    st2.env[inner[0]['referencedDecl']['id']] = term
            yield st2

    def s_ReturnStmt(self, n, st):
        inner = [c for c in n.get('inner', []) if c.get('kind')]
        if not inner:
            st.ev('ret', ('void',), site_of(n, st))
            yield st, ('ret', ('void',))
            return
        e0 = self.strip(inner[0])
        if typeclass(qt(inner[0])) == 'lockguard':
            # a helper handing its guard to the caller: no release here, the caller's variable owns the lock from now on
            if e0.get('kind') in ('CXXConstructExpr', 'CallExpr'):
                # `return guard;` / `return std::move(guard);` of a move-only guard: a move construction from the local guard
                x = e0
                while x.get('kind') in ('CXXConstructExpr', 'CallExpr', 'MaterializeTemporaryExpr', 'ImplicitCastExpr') and \
                        len([c for c in x.get('inner', []) if c.get('kind')]) in (1, 2):
                    kids = [c for c in x.get('inner', []) if c.get('kind')]
                    nxt = self.strip(kids[-1])
                    if typeclass(qt(nxt)) != 'lockguard':
                        break
                    x = nxt
                if x.get('kind') == 'DeclRefExpr' and typeclass(qt(x)) == 'lockguard':
                    e0 = x
            if e0.get('kind') == 'DeclRefExpr':
                gl = st.env.get(e0['referencedDecl']['id'])
                for i, g in enumerate(st.guards):
                    if g[1] == gl:
                        st.guards.pop(i)
                        st.ev('ret', ('guardval', g[2], g[3], True), site_of(n, st))
                        yield st, ('ret', ('guardval', g[2], g[3], True))
                        return
            elif e0.get('kind') in ('CXXConstructExpr', 'CXXTemporaryObjectExpr', 'InitListExpr', 'CXXFunctionalCastExpr'):
                cargs = [c for c in e0.get('inner', []) if c.get('kind')]
                if e0.get('kind') == 'CXXFunctionalCastExpr' and cargs:
                    cargs = [c for c in self.strip(cargs[0]).get('inner', []) if c.get('kind')]
                if cargs:
                    for st2, ts in self.eval_args(cargs[:1], st, as_value=False):
                        gv = ('guardval', ts[0], len(cargs) == 1, False)
                        st2.ev('ret', gv, site_of(n, st2))
                        yield st2, ('ret', gv)
                    return
        rqt = (inner[0].get('type', {}).get('desugaredQualType') or qt(inner[0]) or '')
        if rqt.startswith('std::pair<') and ('lock_guard<' in rqt or 'unique_lock<' in rqt or 'scoped_lock<' in rqt) \
                and e0.get('kind') in ('CXXConstructExpr', 'InitListExpr', 'CXXTemporaryObjectExpr'):
            # `return {std::move(guard), now};`: the guard travels to the caller inside the pair (ownership moves, no release here)
            cargs = [c for c in e0.get('inner', []) if c.get('kind')]
            if len(cargs) == 2:
                vals = []
                ok = True
                cur = st
                for a in cargs:
                    x = self.strip(a)
                    while x.get('kind') in ('CallExpr', 'CXXConstructExpr', 'MaterializeTemporaryExpr', 'CXXBindTemporaryExpr') and \
                            len([c for c in x.get('inner', []) if c.get('kind')]) in (1, 2) and typeclass(qt(x)) == 'lockguard':
                        kids = [c for c in x.get('inner', []) if c.get('kind')]
                        x = self.strip(kids[-1])
                    if typeclass(qt(a)) == 'lockguard':
                        g = None
                        if x.get('kind') == 'DeclRefExpr':
                            gl = cur.env.get(x['referencedDecl']['id'])
                            for i, gg in enumerate(cur.guards):
                                if gg[1] == gl:
                                    g = cur.guards.pop(i)
                                    break
                        if g is None:
                            ok = False
                            break
                        vals.append(('guardval', g[2], g[3], True))
                    else:
                        got = list(self.rv(a, cur))
                        if len(got) != 1:
                            ok = False
                            break
                        cur, v1 = got[0]
                        vals.append(v1)
                if ok:
                    t = ('pair', vals[0], vals[1])
                    cur.ev('ret', t, site_of(n, cur))
                    yield cur, ('ret', t)
                    return
        if qt(inner[0]) == 'bool' and e0.get('kind') in ('BinaryOperator', 'CXXOperatorCallExpr', 'UnaryOperator'):
            # `return a != b;` is normalised to `if (a != b) return true; else return false;` (same behaviour, one more branch)
            for st2, truth in self.cond(inner[0], st):
                st2.ev('ret', ('bool', truth), site_of(n, st2))
                yield st2, ('ret', ('bool', truth))
            return
        by_ref = bool(st.retref and st.retref[-1]) and inner[0].get('valueCategory') in ('lvalue', 'xvalue')
        for st2, t in (self.eval(inner[0], st) if by_ref else self.rv(inner[0], st)):
            st2.ev('ret', t, site_of(n, st2))
            yield st2, ('ret', t)

    def s_SwitchStmt(self, n, st):
        parts = [c for c in n.get('inner', []) if isinstance(c, dict) and c.get('kind')]
        cond, body = parts[-2], parts[-1]
        # flatten the body into (label, stmt) pairs: label = ('case', node) / ('default',) / None
        flat = []

        def unwrap(x):
            k = x.get('kind')
            if k == 'CaseStmt':
                inner = [c for c in x.get('inner', []) if c.get('kind')]
                flat.append((('case', inner[0]), None))
                unwrap(inner[-1])
            elif k == 'DefaultStmt':
                inner = [c for c in x.get('inner', []) if c.get('kind')]
                flat.append((('default',), None))
                unwrap(inner[-1])
            else:
                flat.append((None, x))
        for c in [c for c in body.get('inner', []) if c.get('kind')] if body.get('kind') == 'CompoundStmt' else [body]:
            unwrap(c)
        labels = [(i, l) for i, (l, x) in enumerate(flat) if l is not None]

        def run_from(i, st):
            stmts = [x for (l, x) in flat[i:] if x is not None]

            def go(j, st):
                if j == len(stmts):
                    yield st, None
                    return
                for st2, flow in self.exec(stmts[j], st):
                    if flow == ('break',):
                        yield st2, None
                    elif flow is not None:
                        yield st2, flow
                    else:
                        yield from go(j + 1, st2)
            yield from go(0, st)

        for st1, v in self.rv(cond, st):
            cases = [(i, l) for i, l in labels if l[0] == 'case']
            default = next((i for i, l in labels if l[0] == 'default'), None)

            def chain(k, st):
                if k == len(cases):
                    if default is not None:
                        yield from run_from(default, st)
                    else:
                        yield st, None
                    return
                i, l = cases[k]
                for st2, cv in self.rv(l[1], st):
                    term = ('cmp', '==', v, cv)
                    s_ = site_of(l[1], st2)
                    f = fold_cmp(term)
                    if f is True:
                        yield from run_from(i, st2)
                        continue
                    if f is False:
                        yield from chain(k + 1, st2)
                        continue
                    stt = st2.clone()
                    stt.ev('cond', term, True, s_)
                    yield from run_from(i, stt)
                    st2.ev('cond', term, False, s_)
                    yield from chain(k + 1, st2)
            yield from chain(0, st1)

    def s_CXXTryStmt(self, n, st):
        # the properties assume that user key/value operations do not throw: the handlers are unreachable, the try block runs
        parts = [c for c in n.get('inner', []) if isinstance(c, dict) and c.get('kind')]
        st.ev('note', 'try-block analysed without its handlers (no-throw premise)', site_of(n, st))
        yield from self.exec(parts[0], st)

    def s_BreakStmt(self, n, st):
        yield st, ('break',)

    def s_ContinueStmt(self, n, st):
        yield st, ('continue',)

    def s_IfStmt(self, n, st):
        parts = [c for c in n.get('inner', [])]
        parts = [c for c in parts if isinstance(c, dict)]
        idx = 0
        pre = []
        if n.get('hasInit'):
            pre.append(parts[idx]); idx += 1
        if n.get('hasVar'):
            pre.append(parts[idx]); idx += 1
        parts = [c for c in parts[idx:] if c.get('kind')]
        c = parts[0]
        then = parts[1] if len(parts) > 1 else None
        els = parts[2] if len(parts) > 2 else None

        def go(st):
            if n.get('isConstexpr'):
                # instantiated constexpr-if: the condition is a constant
                cv = self.const_bool(c)
                if cv is not None:
                    br = then if cv else els
                    if br is None:
                        yield st, None
                    else:
                        yield from self.exec(br, st)
                    return
            for st2, truth in self.cond(c, st):
                br = then if truth else els
                if br is None:
                    yield st2, None
                else:
                    yield from self.exec(br, st2)

        def runpre(i, st):
            if i == len(pre):
                yield from go(st)
                return
            for st2, flow in self.exec(pre[i], st):
                if flow is not None:
                    yield st2, flow
                else:
                    yield from runpre(i + 1, st2)

        if pre:
            # if (init; cond): what the init-statement declares (a lock guard!) lives exactly as long as the if statement
            st.scope += 1
            depth = st.scope
            for st2, flow in runpre(0, st):
                for st3 in self.leave_scope(st2, depth, n):
                    st3.scope = depth - 1
                    yield st3, flow
            return
        yield from runpre(0, st)

    def const_bool(self, c):
        x = c
        while isinstance(x, dict) and x.get('kind') in PASS_THROUGH + ('ImplicitCastExpr',):
            if x.get('kind') == 'ConstantExpr' and x.get('value') is not None:
                return x.get('value') not in ('0', 0, 'false')
            inner = [y for y in x.get('inner', []) if isinstance(y, dict) and y.get('kind')]
            if len(inner) != 1:
                break
            x = inner[0]
        c = self.strip(c)
        if c.get('kind') == 'ConstantExpr':
            v = c.get('value')
            if v is not None:
                return v not in ('0', 0, 'false')
        if c.get('kind') == 'CXXBoolLiteralExpr':
            return bool(c.get('value'))
        if c.get('kind') == 'BinaryOperator' and c.get('opcode') in ('==', '!='):
            a, b = [self.strip(x) for x in c['inner']]
            def ev(x):
                x = self.strip(x)
                while x.get('kind') in ('SubstNonTypeTemplateParmExpr', 'ImplicitCastExpr', 'ConstantExpr'):
                    inner = [y for y in x.get('inner', []) if y.get('kind')]
                    # SubstNonTypeTemplateParmExpr: [NonTypeTemplateParmDecl?, replacement]
                    x = inner[-1]
                if x.get('kind') == 'DeclRefExpr' and x['referencedDecl'].get('kind') == 'EnumConstantDecl':
                    return x['referencedDecl'].get('name')
                if x.get('kind') == 'IntegerLiteral':
                    return x.get('value')
                if x.get('kind') in ('CStyleCastExpr', 'CXXStaticCastExpr', 'CXXFunctionalCastExpr'):
                    return ev([y for y in x['inner'] if y.get('kind')][0])
                return None
            va, vb = ev(a), ev(b)
            if va is None or vb is None:
                return None
            # thread_safe enumerators: no=0 yes=1
            m = {'no': '0', 'yes': '1'}
            va, vb = m.get(va, va), m.get(vb, vb)
            return (va == vb) == (c['opcode'] == '==')
        return None

    # loops -------------------------------------------------------------------
    def assigned_locals(self, n):
        out = set()

        def tgt(x):
            x = self.strip(x)
            if x.get('kind') == 'DeclRefExpr' and x['referencedDecl'].get('kind') in ('VarDecl', 'ParmVarDecl'):
                out.add(x['referencedDecl']['id'])

        def w(x):
            if not isinstance(x, dict):
                return
            k = x.get('kind')
            if k in ('BinaryOperator', 'CompoundAssignOperator') and (x.get('opcode') == '=' or x.get('opcode', '').endswith('=') and x.get('opcode') not in ('==', '!=', '<=', '>=')):
                tgt(x['inner'][0])
            elif k == 'UnaryOperator' and x.get('opcode') in ('++', '--'):
                tgt(x['inner'][0])
            elif k == 'CXXOperatorCallExpr':
                name = self.callee_name(x)[0]
                if name in ('operator=', 'operator++', 'operator--', 'operator+=', 'operator-='):
                    tgt(x['inner'][1])
            elif k == 'CXXMemberCallExpr':
                # mutating member call on a local object (output.emplace_back ...): treated via store, not env
                pass
            if k in ('CallExpr', 'CXXMemberCallExpr', 'CXXOperatorCallExpr'):
                # a local handed to a callee as a bare lvalue binds to a non-const reference parameter (a by-value or const&
                # parameter puts a conversion node in between): the callee may assign it (`tally(count, ok)`)
                cname = (self.callee_name(x)[0] or '') if k != 'CXXMemberCallExpr' else ''
                if cname not in ('move', 'forward', 'as_const', 'addressof', 'get', 'size', 'begin', 'end', 'cbegin', 'cend', 'data', 'empty',
                                 'next', 'prev', 'distance', 'min', 'max') and not (k == 'CXXOperatorCallExpr' and cname in (
                                     'operator==', 'operator!=', 'operator<', 'operator>', 'operator<=', 'operator>=', 'operator*', 'operator->',
                                     'operator+', 'operator-', 'operator()', 'operator[]')):
                    for a in (x.get('inner', []) or [])[1:]:
                        y = a
                        while isinstance(y, dict) and y.get('kind') == 'ParenExpr' and y.get('inner'):
                            y = y['inner'][0]
                        if isinstance(y, dict) and y.get('kind') == 'DeclRefExpr' and y.get('valueCategory') == 'lvalue' \
                                and y.get('referencedDecl', {}).get('kind') == 'VarDecl' \
                                and not (qt(y) or '').startswith('const ') \
                                and (typeclass(qt(y)) in ITERATORS or re.match(
                                    r'^(unsigned |signed )?(long long|long|int|short|char|bool|float|double|size_t|std::size_t|u?int\d+_t)\b',
                                    (y.get('type', {}).get('desugaredQualType') or qt(y) or ''))):
                            out.add(y['referencedDecl']['id'])
            for c in x.get('inner', []) or []:
                w(c)
        w(n)
        return out

    def lambda_assigned(self, st, node, depth=0):
        """locals assigned inside lambdas that the statement may call through a variable / parameter holding the lambda"""
        out = set()
        if depth > 3:
            return out

        def w(x):
            if not isinstance(x, dict):
                return
            if x.get('kind') == 'DeclRefExpr' and x.get('referencedDecl', {}).get('kind') in ('VarDecl', 'ParmVarDecl'):
                loc = st.env.get(x['referencedDecl']['id'])
                v = st.store.get(loc, loc) if loc is not None else None
                if isinstance(v, tuple) and v and v[0] == 'lambda' and v[1] in self.ctx.lambdas:
                    lam = self.ctx.lambdas[v[1]]
                    if lam.body is not None:
                        out.update(self.assigned_locals(lam.body))
                        out.update(self.lambda_assigned(st, lam.body, depth + 1))
            for c in x.get('inner', []) or []:
                w(c)
        w(node)
        return out

    @staticmethod
    def loop_is_pure(L):
        """no iteration (or condition evaluation) of the loop writes a member, calls a mutating container operation, takes a lock, draws a
        random number or contains something unmodelled: only locals change"""
        def pure(paths):
            for p in paths:
                for e in p.trace:
                    k = e[0]
                    if k in ('wr', 'call', 'atomic', 'swap', 'iota', 'lock', 'unlock', 'relock', 'unknown', 'rng', 'delete', 'stale-pos', 'now', 'fence'):
                        if k == 'call' and isinstance(e[1], tuple) and e[1][:1] == ('var',):
                            return False      # appends to a local container: its contents change (keep the general treatment)
                        return False
                    if k == 'loop' and not (getattr(e[1], 'pure', False)):
                        return False
            return True
        return pure(L.iters) and pure(L.cond_paths)

    def havoc_locals(self, st, ids, lid, tag):
        for vid in ids:
            b = st.env.get(vid)
            if b is not None and isinstance(b, tuple) and b[0] in ('var', 'p'):
                cur = st.store.get(b)
                from_param = b[0] == 'p' or (cur is not None and root_of(cur)[0] == 'param')
                st.store[b] = ('lv', b[1], lid, tag, 'param') if from_param else ('lv', b[1], lid, tag, b[2] if len(b) > 2 else None)
        st.decided.clear()

    def havoc(self, st, ids, lid, tag):
        st.era += 1
        for loc in list(st.store):
            r = root_of(loc)
            if r[0] in ('field', 'this', 'res', 'other', 'heap'):
                del st.store[loc]
        st.fieldwrites.clear()
        st.decided.clear()
        st.absent.clear()
        st.present.clear()
        for vid in ids:
            b = st.env.get(vid)
            if b is not None and isinstance(b, tuple) and b[0] in ('var', 'p'):
                cur = st.store.get(b)
                from_param = b[0] == 'p' or (cur is not None and root_of(cur)[0] == 'param')
                st.store[b] = ('lv', b[1], lid, tag, 'param') if from_param else ('lv', b[1], lid, tag, b[2] if len(b) > 2 else None)

    @staticmethod
    def ast_shape(x):
        """structure of an expression without node identities / positions (to compare two occurrences of the same source text)"""
        if isinstance(x, dict):
            if x.get('kind') in ('ImplicitCastExpr', 'ParenExpr', 'ExprWithCleanups', 'MaterializeTemporaryExpr', 'CXXBindTemporaryExpr',
                                 'CXXConstructExpr') and len([c for c in x.get('inner', []) if isinstance(c, dict) and c.get('kind')]) == 1:
                return Evaluator.ast_shape([c for c in x['inner'] if isinstance(c, dict) and c.get('kind')][0])
            out = []
            for k in ('kind', 'name', 'opcode', 'value', 'castKind', 'isArrow'):
                if k in x:
                    out.append((k, x[k]))
            r = x.get('referencedDecl')
            if isinstance(r, dict):
                out.append(('ref', r.get('id')))
            m = x.get('referencedMemberDecl')
            if m:
                out.append(('mref', m))
            out.append(tuple(Evaluator.ast_shape(c) for c in x.get('inner', []) if isinstance(c, dict) and c.get('kind')))
            return tuple(out)
        return x

    def reseeded_var(self, init, inc, body, cond):
        """for (auto v = E; ...; v = E): v is re-computed from the current state by the same expression at loop entry and at the end of
        every iteration (and nowhere else): at every evaluation of the condition v == E(current state).  -> (VarDecl, E) or None"""
        if init is None or inc is None or init.get('kind') != 'DeclStmt':
            return None
        ds = [c for c in init.get('inner', []) if c.get('kind') == 'VarDecl']
        if len(ds) != 1:
            return None
        v = ds[0]
        vi = [c for c in v.get('inner', []) if isinstance(c, dict) and c.get('kind') and not c['kind'].endswith('Comment')]
        if len(vi) != 1:
            return None
        x = self.strip(inc)
        rhs = None
        if x.get('kind') == 'BinaryOperator' and x.get('opcode') == '=':
            l, rhs = x['inner'][0], x['inner'][1]
        elif x.get('kind') == 'CXXOperatorCallExpr' and self.callee_name(x)[0] == 'operator=':
            l, rhs = x['inner'][1], x['inner'][2]
        else:
            return None
        l = self.strip(l)
        if not (l.get('kind') == 'DeclRefExpr' and l['referencedDecl'].get('id') == v['id']):
            return None
        if self.ast_shape(rhs) != self.ast_shape(vi[0]):
            return None
        if v['id'] in self.assigned_locals(body) or (cond is not None and v['id'] in self.assigned_locals(cond)):
            return None
        return v, vi[0]

    def keep_presence(self, st, L, saved_abs, saved_pres):
        """what was known about keys before a loop still holds after it for every map no iteration inserts into / erases from"""
        ins, ers = set(), set()

        def walk(paths):
            for p in paths:
                for e in p.trace:
                    if e[0] == 'call':
                        if e[2] in ('emplace', 'try_emplace', 'insert', 'emplace_hint', 'operator[]', 'insert_or_assign', 'merge', 'swap') or \
                                str(e[2]).startswith('algo:'):
                            ins.add(e[1])
                        if e[2] in ('erase', 'clear', 'extract', 'swap', 'merge') or str(e[2]).startswith('algo:'):
                            ers.add(e[1])
                    elif e[0] == 'loop':
                        walk(e[1].iters)
                    elif e[0] == 'unknown':
                        ins.add(None)
        walk(L.iters)
        if None in ins:
            return
        st.absent |= set(x for x in saved_abs if x[0] not in ins)
        st.present |= set(x for x in saved_pres if x[0] not in ers)

    def do_loop(self, n, st, kind, init, cond, inc, body, range_info=None, cond_decl=None):
        """summarise a loop: one arbitrary iteration per body path from a havocked state; continue after it
        from a havocked state.  Iteration paths that return terminate the function."""
        lid = st.fresh()
        L = Loop(lid, kind, site_of(n, st))
        if range_info is not None:
            L.range = range_info[0]
        ids = set()
        for part in (cond, inc, body, cond_decl):
            if part is not None:
                ids |= self.assigned_locals(part)
                ids |= self.lambda_assigned(st, part)
        L.assigned = ids

        def after_init(st):
            # ---- arbitrary iteration
            it_st = st.clone()
            it_st.trace = []
            self.havoc(it_st, ids, lid, 'iter')
            it_st.outer_objs = frozenset(o[2] for o in getattr(st, 'objs', []))      # helper objects that live across the iterations
            it_st.obj_reads = frozenset()
            it_st.ev('iter', lid, it_st.era)
            if range_info is not None:
                self.bind_range_var(range_info, it_st, lid)
            outs = []
            if reseed is not None:
                vloc = it_st.env.get(reseed[0]['id'])
                vals = list(self.rv(reseed[1], it_st))
                if len(vals) == 1 and vloc is not None:
                    it_st = vals[0][0]
                    it_st.store[vloc] = vals[0][1]
            if kind == 'do':
                # do { body } while (cond);  the body runs first, the condition decides whether another iteration follows
                for st_b, flow in (self.exec(body, it_st) if body is not None else [(it_st, None)]):
                    if flow is None or flow == ('continue',):
                        for st_c, truth in (self.cond(cond, st_b) if cond is not None else [(st_b, True)]):
                            # either way this iteration ran to completion (the false outcome only means it was the last one)
                            L.iters.append(Path(st_c.trace, None, 'continue', st_c))
                    elif flow == ('break',):
                        L.iters.append(Path(st_b.trace, None, 'break', st_b))
                    else:
                        L.iters.append(Path(st_b.trace, flow[1], 'ret', st_b))
                        outs.append((st_b, flow))
                conds = []
            elif cond_decl is not None:
                conds = []
                for st_d, flow_d in self.exec(cond_decl, it_st):
                    if flow_d is None:
                        conds += list(self.cond(cond, st_d))
            else:
                conds = self.cond(cond, it_st) if cond is not None else [(it_st, True)]
            for st_c, truth in conds:
                if not truth:
                    L.cond_paths.append(Path(st_c.trace, None, 'exit'))
                    continue
                for st_b, flow in (self.exec(body, st_c) if body is not None else [(st_c, None)]):
                    if flow is None or flow == ('continue',):
                        if inc is not None:
                            for st_i, _ in self.eval(inc, st_b):
                                L.iters.append(Path(st_i.trace, None, 'continue', st_i))
                        else:
                            L.iters.append(Path(st_b.trace, None, 'continue', st_b))
                    elif flow == ('break',):
                        L.iters.append(Path(st_b.trace, None, 'break', st_b))
                    else:
                        L.iters.append(Path(st_b.trace, flow[1], 'ret', st_b))
                        outs.append((st_b, flow))
            L.pure = self.loop_is_pure(L) and not outs
            pf = self.prefill_of(L, range_info, st, lid) if kind == 'range' else None
            if pf is not None:
                st.rangecopy[pf] = range_info[0]
            else:
                st.ev('loop', L)
            # paths that return from inside an iteration
            for st_b, flow in outs:
                r = st.clone()
                r.trace = st.trace + [('iter-return', lid)] + [e for e in st_b.trace if e[0] in ('unlock',)]
                r.guards = []
                yield r, flow
            # ---- continuation after the loop
            saved_abs, saved_pres = set(st.absent), set(st.present)
            if L.pure:
                # no iteration writes anything but its own locals: member state after the loop is what it was before
                self.havoc_locals(st, ids, lid, 'post')
            else:
                self.havoc(st, ids, lid, 'post')
                self.keep_presence(st, L, saved_abs, saved_pres)
            if reseed is not None:
                vloc = st.env.get(reseed[0]['id'])
                vals = list(self.rv(reseed[1], st))
                if len(vals) == 1 and vloc is not None:
                    st = vals[0][0]
                    st.store[vloc] = vals[0][1]
            yield st, None

        reseed = self.reseeded_var(init, inc, body, cond) if kind == 'for' else None
        if init is not None:
            for st2, flow in self.exec(init, st):
                if flow is not None:
                    yield st2, flow
                else:
                    yield from after_init(st2)
        else:
            yield from after_init(st)

    def prefill_of(self, L, range_info, st, lid):
        """`for (const auto& k : R) out.emplace_back(k, std::nullopt);` over a caller-owned range R, `out` a still empty local vector:
        -> out (the loop touches nothing else; it is replaced by the fact that out[i] == (R[i], nullopt) for every i < size(R))"""
        rloc = range_info[0]
        if root_of(rloc)[0] != 'param' or len(L.iters) != 1 or L.iters[0].status != 'continue':
            return None
        if any(e[0] not in ('iter', 'q', 'cond') for cp in L.cond_paths for e in cp.trace):
            return None
        calls = [e for e in L.iters[0].trace if e[0] not in ('iter', 'q', 'use', 'rd')]
        if len(calls) != 1 or calls[0][0] != 'call':
            return None
        c = calls[0]
        V, name, args = c[1], c[2], c[3]
        if not (isinstance(V, tuple) and V and V[0] == 'var' and name in ('emplace_back', 'push_back')):
            return None
        if len(args) == 1 and isinstance(args[0], tuple) and args[0] and args[0][0] == 'pair':
            args = (args[0][1], args[0][2])
        if len(args) != 2:
            return None
        k0 = args[0][2] if (isinstance(args[0], tuple) and args[0] and args[0][0] == 'ld') else args[0]
        if k0 != ('elem', rloc, lid):
            return None
        if not (args[1] in (('global', 'nullopt'), ('bool', False)) or (isinstance(args[1], tuple) and args[1] and args[1][0] == 'ctor' and not args[1][2]
                                                                       and 'optional' in str(args[1][1]))):
            return None         # (key, nullopt) for the maps / caches, (key, false) for ut_set
        # nothing was put into the vector before (reserve only)
        for e in st.trace:
            if e[0] == 'call' and e[1] == V and e[2] != 'reserve':
                return None
            if e[0] == 'loop':
                for it in e[1].iters:
                    if any(x[0] == 'call' and x[1] == V for x in it.trace):
                        return None
        if V in st.rangecopy:
            return None
        return V

    def s_WhileStmt(self, n, st):
        parts = [c for c in n.get('inner', []) if isinstance(c, dict) and c.get('kind')]
        cond, body = parts[-2], parts[-1]
        # while (T* p = f()) ...: the condition variable is declared anew before every evaluation of the condition
        cdecl = parts[0] if n.get('hasVar') and len(parts) >= 3 and parts[0].get('kind') == 'DeclStmt' else None
        yield from self.do_loop(n, st, 'while', None, cond, None, body, cond_decl=cdecl)

    def s_DoStmt(self, n, st):
        parts = [c for c in n.get('inner', []) if isinstance(c, dict) and c.get('kind')]
        body, cond = parts[0], parts[1]
        yield from self.do_loop(n, st, 'do', None, cond, None, body)

    def s_ForStmt(self, n, st):
        parts = n.get('inner', [])
        parts = [(c if isinstance(c, dict) and c.get('kind') else None) for c in parts]
        # [init, condvar, cond, inc, body]
        while len(parts) < 5:
            parts.insert(0, None)
        init, _, cond, inc, body = parts[-5:]
        st.scope += 1
        depth = st.scope
        for st2, flow in self.do_loop(n, st, 'for', init, cond, inc, body):
            for st3 in self.leave_scope(st2, depth, n):
                st3.scope = depth - 1
                yield st3, flow

    def s_CXXForRangeStmt(self, n, st):
        parts = n.get('inner', [])
        parts = [(c if isinstance(c, dict) and c.get('kind') else None) for c in parts]
        # [init, range decl, begin decl, end decl, cond, inc, loopvar decl, body]
        init, rng, beg, end, cond, inc, var, body = parts[-8:]
        rv_decl = [c for c in rng.get('inner', []) if c.get('kind')][0]
        rinit = [c for c in rv_decl.get('inner', []) if c.get('kind')]

        def go(st):
            for st2, rloc in self.eval(rinit[0], st):
                st2.ev('range', rloc, site_of(n, st2))
                yield from self.do_loop(n, st2, 'range', None, None, None, body, range_info=(rloc, var))

        if init is not None:
            for st2, flow in self.exec(init, st):
                if flow is not None:
                    yield st2, flow
                else:
                    yield from go(st2)
        else:
            yield from go(st)

    def bind_range_var(self, range_info, st, lid):
        rloc, var = range_info
        elem = ('elem', rloc, lid)
        if rloc in st.rangecopy:
            # walking the pre-filled output front to back: its i-th slot pairs the caller's i-th key with the answer
            elem = ('rcslot', rloc, ('lv', '$pos', lid, 'iter', 'rangecopy'))
        d = [c for c in var.get('inner', []) if c.get('kind')][0]
        k = d.get('kind')
        if k == 'DecompositionDecl':
            fake = dict(d)
            binds = [c for c in d.get('inner', []) if c.get('kind') == 'BindingDecl']
            init = [c for c in d.get('inner', []) if c.get('kind') and c['kind'] != 'BindingDecl']
            is_ref = d['type'].get('qualType', '').rstrip().endswith('&')
            base = elem
            st.env[d['id']] = base
            bt = typeclass(qt(init[0])) if init else 'other'
            for i, bd in enumerate(binds):
                inner = [c for c in bd.get('inner', []) if c.get('kind')]
                idx = i
                member = None
                if inner:
                    it = self.strip(inner[0])
                    m = re.search(r'tuple_element<(\d+)', it.get('type', {}).get('qualType', ''))
                    if m:
                        idx = int(m.group(1))
                    elif it.get('kind') == 'MemberExpr':
                        member = it.get('name')
                if member is not None:
                    term = ('fld', base, member)
                elif bt == 'pair':
                    term = self.project(st, base, 'first' if idx == 0 else 'second')
                else:
                    term = ('get', idx, base)
                if not is_ref:
                    # `auto [a, b] : range` copies the element: reads see the element's values, writes stay in the copy
                    copy = ('fld', ('var', '$decomp', d['id']), 'm%d' % idx)
                    st.store[copy] = self.load(st, term, d)
                    term = copy
                st.env[bd['id']] = term
                if inner and inner[0].get('kind') == 'DeclRefExpr':
                    st.env[inner[0]['referencedDecl']['id']] = term
        elif k == 'VarDecl':
            is_ref = d['type'].get('qualType', '').rstrip().endswith('&')
            if is_ref:
                st.env[d['id']] = elem
            else:
                loc = ('var', d.get('name'), d['id'])
                st.env[d['id']] = loc
                st.store[loc] = self.load(st, elem, d)
        else:
            self.unknown(st, 'range var %s' % k, var)

    # ------------------------------------------------------------------ entry points
    def run(self, m):
        """all paths of method m (helpers inlined) -> list[Path]"""
        st = State(self.ctx)
        st.fn_stack.append(m.qname)
        for p in m.params:
            pt = p['type'].get('qualType', '')
            loc = ('p', p.get('name'))
            st.env[p['id']] = loc
        paths = []
        if m.is_ctor:
            for ini in m.inits:
                self.ctor_init(ini, st)
        body = m.body
        if body is None:
            return [Path(st.trace, None, 'end', st)]
        for st2, flow in self.exec(body, st):
            ret = flow[1] if flow and flow[0] == 'ret' else None
            paths.append(Path(st2.trace, ret, 'ret' if flow else 'end', st2))
            if len(paths) > MAX_PATHS:
                self.ctx.unknowns.append(('path explosion in %s' % m.qname, site_of(m.node)))
                break
        return paths

    def ctor_init(self, ini, st):
        tgt = ini.get('anyInit') or {}
        name = tgt.get('name')
        inner = [c for c in ini.get('inner', []) if c.get('kind')]
        if name is None:
            return
        loc = ('fld', ('this',), name)
        if not inner:
            return
        if inner[0].get('kind') == 'CXXDefaultInitExpr' and not [c for c in inner[0].get('inner', []) if c.get('kind')]:
            # no mem-initialiser: the member's default member initialiser runs
            f = getattr(self.cm, 'field_by_name', {}).get(name)
            fin = [c for c in (f.node.get('inner', []) if f is not None else []) if isinstance(c, dict) and c.get('kind') and not c['kind'].endswith('Comment')]
            if not fin:
                return
            inner = fin
        outs = list(self.rv(inner[0], st)) if inner[0].get('valueCategory') != 'prvalue' else list(self.eval(inner[0], st))
        if outs:
            st2, t = outs[0]
            # constructor initialisers do not fork
            st.trace = st2.trace
            st.store = st2.store
            st.ev('init', loc, t, site_of(ini, st))
            st.store[loc] = t


# ---------------------------------------------------------------------------------------------- printing

def show(t, depth=0):
    if not isinstance(t, tuple):
        return str(t)
    if not t:
        return '()'
    if depth > 12:
        return '...'
    k = t[0]
    s = lambda x: show(x, depth + 1)
    if k == 'this':
        return 'this'
    if k == 'fld':
        return ('%s' % t[2]) if t[1] == ('this',) else '%s.%s' % (s(t[1]), t[2])
    if k == 'idx':
        return '%s[%s]' % (s(t[1]), s(t[2]))
    if k == 'deref':
        return '*%s' % s(t[1])
    if k == 'addr':
        return '&%s' % s(t[1])
    if k == '$':
        return '$' + t[1]
    if k == 'var':
        return '%s' % t[1]
    if k == 'p':
        return '$%s' % t[1]
    if k == 'q':
        return '%s.%s(%s)%s' % (s(t[2]), t[1], ','.join(s(a) for a in t[3]), '' if t[4] in (None, 0) else '@%s' % t[4])
    if k == 'res':
        return 'res#%s' % t[1]
    if k == 'adv':
        return '%s(%s)%s' % ('next' if t[1] > 0 else 'prev', s(t[2]), '' if abs(t[1]) == 1 else '^%d' % abs(t[1]))
    if k == 'add':
        return '(%s%+d)' % (s(t[1]), t[2])
    if k == 'bin':
        return '(%s %s %s)' % (s(t[2]), t[1], s(t[3]))
    if k == 'cmp':
        return '(%s %s %s)' % (s(t[2]), t[1], s(t[3]))
    if k == 'not':
        return '!%s' % s(t[1])
    if k in ('int', 'bool', 'float', 'str'):
        return str(t[1])
    if k == 'enum':
        return '%s::%s' % ((t[1] or '').split('::')[-1], t[2])
    if k == 'ctor':
        tn = re.sub(r'<.*', '', t[1] or '')
        return '%s{%s}' % (tn.split('::')[-1], ','.join(s(a) for a in t[2]))
    if k == 'now':
        return 'now#%s' % t[1]
    if k == 'rng':
        return 'rng#%s' % t[1]
    if k == 'pred':
        return '%s(%s)' % (t[1], s(t[2]))
    if k in ('era', 'ld'):
        return s(t[2]) if t[1] == 0 else '%s~%d' % (s(t[2]), t[1])
    if k == 'lv':
        return '%s~L%s%s' % (t[1], t[2], t[3][0]) if len(t) >= 4 else '%s~' % t[1]
    if k == 'elem':
        return 'elem(%s)' % s(t[1])
    if k == 'get':
        return 'get<%s>(%s)' % (t[1], s(t[2]))
    if k == 'cast':
        return '(%s)%s' % ((t[1] or '').split('::')[-1], s(t[2]))
    if k == 'ma':
        return 'mayalias(%s)' % s(t[1])
    if k == 'hasval':
        return 'has_value(%s)' % s(t[1])
    if k == 'optval':
        return 'value(%s)' % s(t[1])
    if k == 'pair':
        return 'pair(%s,%s)' % (s(t[1]), s(t[2]))
    if k == 'global':
        return '::%s' % t[1]
    if k == 'undef':
        return 'undef(%s)' % s(t[1])
    return '%s(%s)' % (k, ','.join(s(a) for a in t[1:]))


def show_site(s):
    if not s:
        return '?'
    f, l, fn = (list(s) + [None, None, None])[:3]
    if f and '/inc/cappuccino/' in f:
        f = 'inc/cappuccino/' + f.split('/inc/cappuccino/')[1]
    return '%s:%s' % (f, l)


def show_event(e):
    k = e[0]
    if k == 'cond':
        return '%s [%s] @%s' % ('ASSUME' if e[2] else 'ASSUME-NOT', show(e[1]), show_site(e[3]))
    if k == 'lwr':
        return 'local %s := %s @%s' % (show(e[1]), show(e[2]), show_site(e[3]))
    if k == 'wr':
        return 'WRITE %s := %s @%s' % (show(e[1]), show(e[2]), show_site(e[3]))
    if k == 'rd':
        return 'read %s @%s' % (show(e[1]), show_site(e[2]))
    if k == 'call':
        return 'CALL %s.%s(%s) -> %s @%s' % (show(e[1]), e[2], ','.join(show(a) for a in e[3]), show(e[4]), show_site(e[5]))
    if k == 'q':
        return 'query %s @%s' % (show(e[1]), show_site(e[2]))
    if k == 'use':
        return 'use[%s] %s @%s' % (e[2], show(e[1]), show_site(e[3]))
    if k in ('lock', 'unlock'):
        return '%s %s (%s) @%s' % (k.upper(), show(e[1]), e[3] if len(e) > 3 else '', show_site(e[2]))
    if k == 'ret':
        return 'RETURN %s @%s' % (show(e[1]), show_site(e[2]))
    if k == 'enter':
        return '-> %s @%s' % (e[1], show_site(e[2]))
    if k == 'leave':
        return '<- %s' % e[1]
    if k == 'loop':
        return 'LOOP %r' % (e[1],)
    if k == 'now':
        return 'CLOCK %s @%s' % (show(e[1]), show_site(e[2]))
    if k == 'rng':
        return 'RNG %s = %s(%s) @%s' % (show(e[1]), show(e[2]), show(e[3]), show_site(e[4]))
    if k == 'unknown':
        return 'UNKNOWN %s @%s' % (e[1], show_site(e[2]))
    if k == 'atomic':
        return 'ATOMIC %s.%s(%s) -> %s @%s' % (show(e[1]), e[2], ','.join(show(a) for a in e[3]), show(e[4]), show_site(e[5]))
    if k == 'swap':
        return 'SWAP %s <-> %s @%s' % (show(e[1]), show(e[2]), show_site(e[3]))
    return '%s %s' % (k, ' '.join(show(x) if isinstance(x, tuple) and x and isinstance(x[0], str) else str(x) for x in e[1:]))


def dump_path(p, out=sys.stdout, indent=''):
    for e in p.trace:
        if e[0] in ('rd', 'q', 'use'):
            continue
        print(indent + show_event(e), file=out)
        if e[0] == 'loop':
            for i, it in enumerate(e[1].iters):
                print(indent + '  iteration path %d (%s):' % (i, it.status), file=out)
                dump_path(it, out, indent + '    ')
    print(indent + '=> %s %s' % (p.status, show(p.ret) if p.ret is not None else ''), file=out)


if __name__ == '__main__':
    import frontend
    repo = os.environ.get('REPO', '/repo')
    prog = frontend.load_program(repo)
    cls = sys.argv[1] if len(sys.argv) > 1 else 'lru_cache'
    names = sys.argv[2:] or None
    cm = prog.classes[cls]
    ev = Evaluator(prog, cm)
    for m in cm.methods:
        if m.access != 'public' and not (names and m.name in names):
            continue
        if names and m.name not in names:
            continue
        paths = ev.run(m)
        print('=== %s : %d paths' % (m.key(), len(paths)))
        for i, p in enumerate(paths):
            print(' path %d' % i)
            dump_path(p, indent='    ')
    print('unknowns:', ev.ctx.unknowns)
