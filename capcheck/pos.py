"""POS: list-position domain (DESIGN.md 3.6).

Replays one lifted segment on a symbolic model of the container's order list:
a sequence of named nodes and anonymous runs ("gaps") of used / free nodes plus one
MARK item: the partition iterator denotes the node immediately after MARK.
Iterator-valued terms are resolved to nodes at the point they are computed;
splice / ++ / -- are interpreted as [list.ops] defines them.  Nothing is executed:
this is an abstract transformer over list shapes.
"""
from lift import Ent, is_ld, ld0
from model import THIS
from symex import show


class Node:
    def __init__(self, name, bound, ent=None):
        self.name = name
        self.bound = bound        # True / False / None (unknown)
        self.ent = ent
        self.was_bound = bound

    def __repr__(self):
        return '%s%s' % (self.name, {True: '+', False: '-', None: '?'}[self.bound])


class Gap:
    def __init__(self, side, nonempty):
        self.side = side          # 'U' used nodes / 'F' free nodes
        self.nonempty = nonempty  # True: at least one node; False: may be empty

    def __repr__(self):
        return '%s%s' % (self.side, '+' if self.nonempty else '*')


class Mark:
    def __repr__(self):
        return '|'


class PosSim:
    def __init__(self, seg, roles):
        self.seg = seg
        self.L = seg.L
        self.r = roles
        self.order = THIS(roles.order) if roles.order else None
        self.part = THIS(roles.part) if (roles.part and roles.order) else None
        self.problems = []        # (code, message, site)
        self.unknown = []         # unresolved things: dependent rules give no verdict
        self.memo = {}            # iterator term -> Node / 'END'
        self.moved = []
        self.claimed = None
        self.bound_node = None
        self.unbound_nodes = []
        self.epoch = 0
        self.pval = ld0(self.part) if self.part else None     # current value term of the partition iterator
        self._pdelta = 0
        self.mark = Mark() if self.part is not None else None
        full = seg.cond('FULL')
        if seg.cond('ATCAP') is True:
            full = True
        nonempty = seg.cond('NONEMPTY') is True or seg.cond('PRESENT') is True or full is True
        if roles.name == 'fifo_cache':
            hk = [c for c in seg.conds if c[0] == 'HASKEY' and c[1][0].kind in ('FRONT', 'FROMEND')]
            if hk:
                full = hk[0][2]
                nonempty = nonempty or bool(full)
        self.full = full
        if self.mark is not None:
            import lift as _lift
            known_empty = any(_lift.emptiness(c) is False for c in seg.conds) and not nonempty
            self.items = ([] if known_empty else [Gap('U', bool(nonempty))]) + [self.mark]
            if full is not True:
                self.items.append(Gap('F', full is False))
        else:
            # fifo: unbound nodes form a prefix
            self.items = []
            if full is not True:
                self.items.append(Gap('F', full is False))
            self.items.append(Gap('U', bool(nonempty)))

    # ------------------------------------------------------------------ structure helpers
    def show(self):
        return ' '.join(repr(x) for x in self.items)

    def idx(self, item):
        for i, it in enumerate(self.items):
            if it is item:
                return i
        return None

    @property
    def m(self):
        return self.idx(self.mark)

    def find_ent(self, ent):
        for it in self.items:
            if isinstance(it, Node) and it.ent is not None and it.ent.key() == ent.key():
                return it
        return None

    def name_first(self, i, name):
        g = self.items[i]
        n = Node(name, g.side == 'U')
        self.items[i:i + 1] = [n, Gap(g.side, False)]
        return n

    def name_last(self, i, name):
        g = self.items[i]
        n = Node(name, g.side == 'U')
        self.items[i:i + 1] = [Gap(g.side, False), n]
        return n

    def first_node(self):
        for i, it in enumerate(self.items):
            if isinstance(it, Mark):
                return None
            if isinstance(it, Node):
                return it
            if it.nonempty:
                return self.name_first(i, 'head@%d' % self.epoch)
            return None
        return None

    def last_node(self):
        for i in range(len(self.items) - 1, -1, -1):
            it = self.items[i]
            if isinstance(it, Mark):
                continue       # nothing after the partition: the last node is the last used one
            if isinstance(it, Node):
                return it
            if it.nonempty:
                return self.name_last(i, 'tail@%d' % self.epoch)
            return None
        return None

    def after_mark(self):
        i = self.m + 1
        if i >= len(self.items):
            return 'END'
        it = self.items[i]
        if isinstance(it, Node):
            return it
        if it.nonempty:
            return self.name_first(i, 'firstfree@%d' % self.epoch)
        if self.full is True and it.side == 'F':
            return 'END'
        return None

    def before_mark(self):
        i = self.m - 1
        if i < 0:
            return None
        it = self.items[i]
        if isinstance(it, Node):
            return it
        # the path may have established that a particular entity is the last used node
        for c in self.seg.conds:
            if c[0] == 'IS_LAST_USED' and c[2] is True and isinstance(c[1][0], Ent) and self.find_ent(c[1][0]) is None \
                    and c[1][0].kind in ('FOUND', 'AUXHEAD', 'RANDPOS', 'BACK'):
                n = self.ensure(c[1][0])
                if isinstance(n, Node) and self.idx(n) == self.m - 1:
                    return n
        i = self.m - 1
        it = self.items[i]
        if isinstance(it, Node):
            return it
        if it.nonempty:
            return self.name_last(i, 'lastused@%d' % self.epoch)
        return None

    def is_last_used_fact(self, ent):
        for c in self.seg.conds:
            if c[0] == 'IS_LAST_USED' and isinstance(c[1][0], Ent) and c[1][0].key() == ent.key():
                return c[2]
        return None

    def is_front_fact(self, ent):
        for c in self.seg.conds:
            if c[0] == 'IS_FRONT' and isinstance(c[1][0], Ent) and c[1][0].key() == ent.key() and c[1][1] == 0:
                return c[2]
        return None

    def ensure(self, ent):
        """place an entity reached through the index / an aux structure / the order list"""
        n = self.find_ent(ent)
        if n is not None:
            return n
        k = ent.kind
        if k in ('FOUND', 'AUXHEAD', 'RANDPOS', 'AUXNODE'):
            others = [it for it in self.items if isinstance(it, Node) and it.was_bound and it.ent is not None]
            if others:
                self.unknown.append('second bound entity %r: position relative to %r unknown' % (ent, others))
                return None
            lim = self.m if self.mark is not None else len(self.items)
            ugaps = [i for i, it in enumerate(self.items) if isinstance(it, Gap) and it.side == 'U' and i < lim]
            if not ugaps:
                self.problems.append(('NO-USED-REGION', 'entity %r is treated as bound but no used node exists on this path' % ent, None))
                return None
            i = ugaps[-1]
            node = Node(repr(ent), True, ent)
            last = self.is_last_used_fact(ent) if self.mark is not None else None
            front = self.is_front_fact(ent)
            pre = Gap('U', front is False)
            if front is True:
                # fifo: the found node is the list head: nothing (bound or free) in front of it
                self.items = [x for x in self.items[:i] if not isinstance(x, Gap)] + self.items[i:]
                i = self.idx(self.items[i]) if False else next(j for j, it in enumerate(self.items) if isinstance(it, Gap) and it.side == 'U')
                self.items[i:i + 1] = [node, Gap('U', False)]
                return node
            if last is True:
                self.items[i:i + 1] = [pre, node]
            elif last is False:
                self.items[i:i + 1] = [pre, node, Gap('U', True)]
            else:
                self.items[i:i + 1] = [pre, node, Gap('U', False)]
            return node
        if k == 'BACK':
            n = self.last_node()
            if n is None:
                self.unknown.append('back() of the order list is undetermined on this path (fullness unknown)')
                return None
            if n.ent is None:
                n.ent = ent
            return n
        if k == 'FRONT':
            n = self.first_node()
            if n is None:
                self.unknown.append('begin() of the order list is undetermined on this path')
                return None
            if n.ent is None:
                n.ent = ent
            return n
        if k == 'ATPART' and self.mark is not None:
            if ent.arg == 0:
                return self.after_mark()
            if ent.arg == -1:
                return self.before_mark()
        if k == 'FROMEND' and ent.arg == -1:
            return self.last_node()
        return None

    # ------------------------------------------------------------------ term resolution
    def resolve_iter(self, t):
        """iterator value term -> Node | 'END' | 'P' (the node the partition iterator currently denotes) | None"""
        if t in self.memo:
            return self.memo[t]
        r = self._resolve_iter(t)
        if isinstance(r, Node) or r == 'END':
            self.memo[t] = r
        return r

    def _resolve_iter(self, t):
        L, ro = self.L, self.r
        if not isinstance(t, tuple):
            return None
        if t in getattr(self, 'assume_begin', ()):
            return self.first_node()       # a loop-carried iterator variable proven to equal begin() when an iteration starts
        if t[0] == 'q' and t[2] == self.order:
            if t[1] in ('end', 'cend'):
                return 'END'
            if t[1] in ('begin', 'cbegin'):
                if self.list_epoch is not None and (t[4] or 0) != self.epoch_of_list():
                    return None
                return self.first_node()
        if self.part is not None:
            if t == self.pval:
                return 'P'
            if t[0] == 'adv' and t[2] == self.pval:
                if t[1] == -1:
                    return self.before_mark()
                return None
        if t[0] == 'adv' and isinstance(t[2], tuple) and t[2][0] == 'q' and t[2][1] in ('end', 'cend') and t[2][2] == self.order:
            if t[1] == -1:
                return self.last_node()
            return None
        if t[0] == 'adv' and t[1] == 1 and isinstance(t[2], tuple) and t[2][:1] != ('q',):
            # std::next(it) of a resolved node: the following node, or the partition when it is the last used one
            base = self.resolve_iter(t[2])
            if isinstance(base, Node):
                i = self.idx(base) + 1
                if i < len(self.items):
                    nx = self.items[i]
                    if isinstance(nx, Mark):
                        return 'P'
                    if isinstance(nx, Node):
                        return nx
                    if nx.nonempty:
                        return self.name_first(i, 'next@%d' % self.epoch)
                elif i == len(self.items):
                    return 'END'
            return None
        # stored back-pointer into the order list (RI: it denotes the element's own node while the element is bound)
        if is_ld(t) and t[1] == 0 and t[2][0] == 'fld' and ro.backptrs.get(t[2][2]) == 'order':
            return self.ensure(L.elem_entity(t[2][1]))
        if ro.kind == 'nodelist':
            e = L.sid_entity(t)
            if e.kind == 'SELF':
                ek = e.arg[0]
                return self.ensure(Ent(ek[0], ek[1], ek[2]))
            if e.kind in ('FOUND', 'AUXHEAD', 'FRONT'):
                return self.ensure(e)
        return None

    def pre_resolve(self, t):
        """resolve position-relative iterator terms at the point they are computed (before the list changes again)"""
        if not isinstance(t, tuple) or t in self.memo:
            return
        if t[0] == 'adv' and (t[2] == self.pval or (isinstance(t[2], tuple) and t[2][0] == 'q' and t[2][2] == self.order)):
            self.resolve_iter(t)
        elif t[0] == 'q' and t[2] == self.order and t[1] in ('begin', 'cbegin'):
            self.resolve_iter(t)

    def epoch_of_list(self):
        return self.list_epoch

    list_epoch = 0
    pnet = 0                  # net number of nodes the partition moved over (None: not established)
    infeasible = False
    claimed = None

    # ------------------------------------------------------------------ replay
    def run(self):
        seg = self.seg
        for k, i in seg.order:
            if k == 'cond':
                # an entity whose position the path tests is placed when the test is made (the result fixes where it is)
                c = seg.conds[i]
                if c[0] in ('IS_LAST_USED', 'IS_FRONT') and isinstance(c[1][0], Ent) and c[1][0].kind in ('FOUND', 'AUXHEAD', 'RANDPOS', 'BACK'):
                    self.ensure(c[1][0])
                if c[0] == 'IS_FRONT' and c[2] is True and isinstance(c[1][0], Ent):
                    # the path tested that this node is the head of the list: nothing is in front of it
                    n = self.find_ent(c[1][0]) or (self.claimed if c[1][0].kind == 'ATPART' else None)
                    if n is not None and n in self.items:
                        idx = self.items.index(n)
                        pre = self.items[:idx]
                        if any(isinstance(x, Node) or (isinstance(x, Gap) and x.nonempty) for x in pre):
                            self.infeasible = True       # contradicts what the path established earlier (e.g. capacity 1 only)
                            return self
                        self.items = [x for x in pre if isinstance(x, Mark)] + self.items[idx:]
                if c[0] == 'IS_LAST_USED' and c[2] is True and isinstance(c[1][0], Ent) and self.mark is not None and self.moved:
                    # tested AFTER the path moved nodes (`do_access(e); ... if (pos != std::prev(end_of_used))`): the node is the last used
                    # one now, so nothing lies between it and the partition
                    n = self.find_ent(c[1][0])
                    if n is not None and n in self.items and self.mark in self.items:
                        i0, i1 = self.items.index(n), self.items.index(self.mark)
                        if i0 < i1:
                            mid = self.items[i0 + 1:i1]
                            if any(isinstance(x, Node) or (isinstance(x, Gap) and x.nonempty) for x in mid):
                                self.infeasible = True
                                return self
                            self.items = self.items[:i0 + 1] + self.items[i1:]
                continue
            if k == 'loop':
                lp, segs = seg.loops[i]
                touches = [e for s2 in segs for e in s2.effects if e.kind in ('PART', 'BIND', 'UNBIND', 'CNT', 'ORDER_OP')]
                moves = [e for s2 in segs for e in s2.effects if e.kind == 'MOVE']
                if touches:
                    self.unknown.append('loop that changes the partition inside the segment: list shape after it is unknown')
                    return self
                if moves:
                    # the loop only permutes nodes (aging pass): order inside the used region is forgotten, the partition stays
                    if self.mark is None:
                        self.unknown.append('loop reorders the list: shape after it is unknown')
                        return self
                    m = self.m
                    had = any(isinstance(x, Node) or x.nonempty for x in self.items[:m])
                    self.items = [Gap('U', had)] + self.items[m:]
                    self.memo.clear()
                    self.list_epoch = None
                continue
            if k == 'use':
                self.pre_resolve(i)
                continue
            if k != 'eff':
                continue
            e = seg.effects[i]
            if e.kind == 'LOCAL' and isinstance(e.val, tuple):
                self.pre_resolve(e.val)
            if e.kind == 'MOVE':
                self.do_move(e)
            elif e.kind == 'PART':
                self.do_part(e)
            elif e.kind == 'BIND':
                self.do_bind(e)
            elif e.kind == 'UNBIND':
                self.do_unbind(e)
            elif e.kind == 'BACKPTR' and self.r.backptrs.get(e.field) == 'order':
                self.resolve_iter(e.val)
            elif e.kind == 'ORDER_OP':
                self.problems.append(('ORDER-OP', 'order list changed by %s()' % e.name, e.site))
                self.list_epoch += 1
            elif e.kind in ('AUX_ADD', 'AUX_DEL', 'AUX_MOVE') and False:
                pass
        return self

    def do_move(self, e):
        try:
            self._do_move(e)
        finally:
            if self.list_epoch is not None:
                self.list_epoch += 1

    def _do_move_range(self, e):
        """splice(dest, list, first, last): the nodes [first, last) keep their order and go in front of dest.  Modelled when the range
        lies entirely on one side of the partition and consists of named nodes / gaps between two resolved positions."""
        first = self.resolve_iter(e.node)
        last = self.resolve_iter(e.last)
        dest = self.resolve_iter(e.dest)
        if not isinstance(dest, Node):
            self.unknown.append('range splice: destination %s not resolved to a node' % show(e.dest))
            return
        if first == 'P':
            first = self.after_mark()
        if not isinstance(first, Node):
            self.unknown.append('range splice: first position %s not resolved' % show(e.node))
            return
        a = self.idx(first)
        if last == 'P':
            b = self.m
        elif last == 'END':
            b = len(self.items)
        elif isinstance(last, Node):
            b = self.idx(last)
        else:
            self.unknown.append('range splice: end position %s not resolved' % show(e.last))
            return
        if a is None or b is None or a > b:
            self.unknown.append('range splice: positions out of order')
            return
        block = self.items[a:b]
        if any(isinstance(x, Mark) for x in block) or dest in block:
            self.problems.append(('SPLICE-FORM', 'range splice moves nodes across the free/used partition (or onto itself)', e.site))
            self.unknown.append('range splice across the partition')
            return
        adjacent = self.idx(dest) == a - 1
        del self.items[a:b]
        j = self.idx(dest)
        self.items[j:j] = block
        if adjacent:
            # rotating the block in front of the node that preceded it is the same permutation as moving that one node behind the block
            self.moved.append(dest)
        else:
            self.moved += [x for x in block if isinstance(x, Node)]

    def _do_move(self, e):
        if e.nargs == 4 and e.src == self.order and getattr(e, 'last', None) is not None:
            self._do_move_range(e)
            return
        if e.nargs != 3 or e.src != self.order:
            self.problems.append(('SPLICE-FORM', 'splice with %d arguments moves a range of nodes, not the single subject node' % e.nargs, e.site))
            self.unknown.append('range splice')
            return
        node = self.resolve_iter(e.node)
        moved_p = False
        if node == 'P':
            node = self.after_mark()
            moved_p = True
        if not isinstance(node, Node):
            self.unknown.append('spliced node %s not resolved' % show(e.node))
            return
        if self.mark is not None and self.idx(node) == self.m + 1 and not moved_p:
            moved_p = True     # the partition iterator denotes this node: it travels with it
        d = e.dest
        if d in getattr(self, 'assume_begin', ()) and not self.moved:
            dest = 'BEGIN'       # loop-carried variable proven to hold begin() when the iteration starts (nothing moved since)
        elif isinstance(d, tuple) and d[0] == 'q' and d[1] in ('begin', 'cbegin') and d[2] == self.order and \
                (self.list_epoch is None or (d[4] or 0) == self.list_epoch):
            dest = 'BEGIN'
        else:
            dest = self.resolve_iter(d)
        if dest is None:
            self.unknown.append('splice destination %s not resolved' % show(e.dest))
            return
        if dest is node:
            return             # splice(pos, L, pos) is a no-op
        if moved_p:
            self.problems.append(('MOVES-PARTITION-NODE', 'the node the partition iterator denotes is spliced away (the partition follows it)', e.site))
        self.items.remove(node)
        if moved_p:
            self.items.remove(self.mark)
        if dest == 'END':
            j = len(self.items)
        elif dest == 'BEGIN':
            j = 0
        elif dest == 'P':
            j = self.m if not moved_p else len(self.items)
        else:
            j = self.idx(dest)
            if j > 0 and isinstance(self.items[j - 1], Mark):
                j -= 1         # P denotes dest: the spliced node goes in front of P as well
        self.items.insert(j, node)
        if moved_p:
            self.items.insert(j, self.mark)
        self.moved.append(node)

    def do_part(self, e):
        if self.mark is None:
            return
        if e.delta is None:
            v = e.val
            if isinstance(v, tuple) and len(v) > 2 and v[0] == 'adv' and v[2] == self.pval and v[1] in (1, -1):
                step = v[1]                  # one step from the value the partition was last given
                if self.pnet is not None:
                    self.pnet += step
            else:
                # `partition = position of a node` (e.g. of the entry just spliced in front of the free region): the partition now
                # denotes that node; whether used / free nodes are still on their side is judged by integrity()
                n = self.resolve_iter(v) if isinstance(v, tuple) else None
                if isinstance(n, Node) and n in self.items:
                    i_old = self.items.index(self.mark)
                    self.items.remove(self.mark)
                    self.items.insert(self.items.index(n), self.mark)
                    i_new = self.items.index(self.mark)
                    crossed = self.items[i_new + 1:i_old + 1] if i_new < i_old else self.items[i_old:i_new]
                    if self.pnet is not None and all(isinstance(x, Node) for x in crossed):
                        self.pnet += (-len(crossed) if i_new < i_old else len(crossed))
                    else:
                        self.pnet = None
                    self.pval = v
                    return
                self.pnet = None
                self.unknown.append('partition iterator assigned %s' % show(e.val))
                return
        else:
            step = e.delta - self._pdelta
            self._pdelta = e.delta
            if self.pnet is not None:
                self.pnet += step
        old = self.pval
        if e.val in self.memo and isinstance(self.memo[e.val], Node) and step in (1, -1):
            # the new partition value was computed (and resolved to a node) earlier on the path; if the list was re-linked in between,
            # std::prev / std::next of then is not the neighbour of now
            n_then = self.memo[e.val]
            n_now = self.before_mark() if step == -1 else None
            if step == -1 and n_now is not n_then and n_then in self.items:
                self.problems.append(('STALE-POSITION', 'partition iterator set to a position computed before the list was re-linked: it names %s, '
                                      'not the node now in front of the partition' % repr(n_then), e.site))
                self.items.remove(self.mark)
                self.items.insert(self.items.index(n_then), self.mark)
                self.pval = e.val
                return
        if step == 1:
            n = self.after_mark()
            if not isinstance(n, Node):
                self.problems.append(('CLAIM-UNDOMINATED', 'partition iterator advanced although no free node is known to exist '
                                      '(not dominated by a not-full test or a removal)', e.site))
                self.unknown.append('claim')
                self.pval = e.val
                return
            self.memo[old] = n
            i = self.m
            self.items[i], self.items[i + 1] = self.items[i + 1], self.items[i]
            self.claimed = n
        elif step == -1:
            n = self.before_mark()
            if not isinstance(n, Node):
                self.problems.append(('UNCLAIM-UNDOMINATED', 'partition iterator moved back although no used node is known to exist', e.site))
                self.unknown.append('unclaim')
                self.pval = e.val
                return
            na = self.after_mark()
            if isinstance(na, Node):
                self.memo[old] = na
            i = self.m
            self.items[i - 1], self.items[i] = self.items[i], self.items[i - 1]
        elif step != 0:
            self.unknown.append('partition moved by %d at once' % step)
        self.pval = e.val

    def node_of_sid(self, sid):
        n = None
        if self.r.kind == 'slotvec':
            if is_ld(sid) and sid[2][0] == 'deref':
                n = self.resolve_iter(sid[2][1])
        else:
            n = self.resolve_iter(sid)
        if n == 'P':
            n = self.after_mark()
        return n

    def do_bind(self, e):
        n = self.node_of_sid(e.sid)
        if isinstance(n, Node):
            if n.bound is True:
                self.problems.append(('BIND-OF-BOUND', 'the slot bound to the new key (%r) still holds another key' % n, e.site))
            n.bound = True
            self.bound_node = n
        else:
            self.unknown.append('bound slot %s not resolved to a list node' % show(e.sid))

    def memo_node(self, term):
        """the node an iterator-valued term was resolved to when it was computed (never creates one)"""
        if not isinstance(term, tuple):
            return None
        it = term
        if self.r.kind == 'slotvec':
            it = term[2][1] if (is_ld(term) and isinstance(term[2], tuple) and term[2][0] == 'deref') else None
        n = self.memo.get(it) if it is not None else None
        return n if isinstance(n, Node) else None

    def do_unbind(self, e):
        ent = e.ent
        n = None
        if ent is not None:
            # an iterator taken earlier on the path keeps naming its node wherever that node has been moved since
            n = self.memo_node(getattr(ent, 'term', None))
            if n is None:
                n = self.find_ent(ent)
            if n is None and ent.kind in ('FOUND', 'AUXHEAD', 'BACK', 'FRONT', 'RANDPOS'):
                n = self.ensure(ent)
            if n is None and ent.kind == 'FROMEND':
                n = self.last_node()
            if n is None and ent.kind == 'ATPART':
                n = self.ensure(ent)
        if isinstance(n, Node):
            if n.bound is False:
                self.problems.append(('UNBIND-OF-FREE', 'removes the key of a slot that is free (%r)' % n, e.site))
            n.bound = False
            self.unbound_nodes.append(n)
        else:
            self.unknown.append('unbound entity %r not resolved to a list node' % (ent,))

    # ------------------------------------------------------------------ postconditions
    def position_of(self, node):
        i = self.idx(node)
        if i is None:
            return set()
        out = set()

        def empty_run(items):
            return all((isinstance(x, Gap) and not x.nonempty) or isinstance(x, Mark) for x in items)

        def surely_empty(items):
            # gaps that may be empty are not *known* empty: a position claim needs certainty
            return all(isinstance(x, Mark) for x in items) or all(
                isinstance(x, Mark) or (isinstance(x, Gap) and x.side == 'F' and self.full is True) for x in items)

        if i == 0:
            out.add('FRONT')
        if i == len(self.items) - 1 or surely_empty(self.items[i + 1:]):
            out.add('BACK')
        if self.mark is not None:
            m = self.m
            if i == m - 1:
                out.add('LAST_USED')
            if i == m + 1:
                out.add('FIRST_FREE')
            out.add('USED' if i < m else 'FREE')
        return out

    def integrity(self):
        """every node before MARK is bound and every node after it free (fifo: unbound nodes form a prefix)"""
        bad = []
        if self.mark is None:
            seen_bound = False
            for it in self.items:
                if isinstance(it, Gap):
                    if it.side == 'U' and it.nonempty:
                        seen_bound = True
                    if it.side == 'F' and it.nonempty and seen_bound:
                        bad.append('free nodes behind bound ones')
                    continue
                if it.bound is True:
                    seen_bound = True
                elif it.bound is False and seen_bound:
                    bad.append('free node %r behind a bound one (free nodes must form the prefix the next insert recycles)' % it)
            return bad
        m = self.m
        for i, it in enumerate(self.items):
            if isinstance(it, Mark):
                continue
            if isinstance(it, Node):
                if i < m and it.bound is False:
                    bad.append('free node %r left in the used region' % it)
                if i > m and it.bound is True:
                    bad.append('bound node %r left in the free region' % it)
            else:
                if i < m and it.side == 'F' and it.nonempty:
                    bad.append('free nodes in the used region')
                if i > m and it.side == 'U' and it.nonempty:
                    bad.append('used nodes in the free region')
        return bad
