"""Entry-point kinds and operation bodies shared by the sequential rules."""
import lift
from lift import Ent, feasible

KIND = {
    'insert': 'INSERT', 'insert_range': 'INSERT',
    'erase': 'ERASE', 'erase_range': 'ERASE',
    'find': 'FIND', 'find_range': 'FIND', 'find_range_fill': 'FIND', 'find_with_use_count': 'FIND',
    'clean_expired_values': 'CLEAN', 'dynamically_age': 'AGE', 'clear': 'CLEAR', 'update_ttl': 'CFG',
    'size': 'OBS', 'empty': 'OBS', 'capacity': 'OBS',
}


def kind_of(m):
    """the operation kind the property texts give a public method by name; a public method they do not name (one added later) is
    judged by what it does (classify_new_method): an operation that stores a value under a key is an insert, one that removes the
    entry found for a key is an erase, one that consults the index for a key is a lookup"""
    k = KIND.get(m.name)
    if k is not None:
        return k
    return getattr(m, 'eff_kind', None) or 'UNKNOWN'


def named(m):
    return m.name in KIND


def classify_new_method(an, cm, roles, m):
    keep, pruned = lift.segments_of(an, cm, roles, m)
    binds = upd = unb_live = consult = False
    for top in keep:
        for seg in top.all_segments():
            if seg.effs('BIND'):
                binds = True
            for e in seg.effs('VAL'):
                if isinstance(e.ent, Ent) and e.ent.kind == 'FOUND' and not (isinstance(e.val, tuple) and e.val[:1] == ('moved',)):
                    upd = True
            for e in seg.effs('UNBIND'):
                if isinstance(e.ent, Ent) and e.ent.kind == 'FOUND':
                    dead = any(c[0] in ('EXPIRED', 'EXPIRED_STRICT') and c[2] is True and isinstance(c[1][0], Ent) and c[1][0].key() == e.ent.key()
                               for c in seg.conds)
                    if not dead:
                        unb_live = True
            if seg.conds_of('PRESENT'):
                consult = True
    # does a live hit of this method ever record a use (re-order / re-count / re-stamp the entry)?  Then every live hit must.
    USE_KINDS = ('MOVE', 'AUX_ADD', 'AUX_DEL', 'AUX_MOVE', 'STAMP')
    m.eff_use = any(seg.cond('PRESENT') is True and any(e.kind in USE_KINDS for e in seg.effects)
                    and not any(e.kind == 'UNBIND' for e in seg.effects)
                    for top in keep for seg in top.all_segments())
    if binds or upd:
        return 'INSERT'
    if unb_live:
        return 'ERASE'
    if consult:
        return 'FIND'
    return 'UNKNOWN'


def is_range_method(m):
    return m.name.endswith('_range') or m.name == 'find_range_fill' or (m.template is not None) or \
        any(p.get('name') in ('begin', 'end') for p in m.params)


class Body:
    """one single-key operation: a method-level segment or one loop iteration of a range method"""

    def __init__(self, seg, method, top, in_loop):
        self.seg = seg
        self.method = method
        self.top = top            # the method-level segment it belongs to
        self.in_loop = in_loop    # the Loop it is an iteration of, or None

    @property
    def where(self):
        return '%s%s' % (self.method.key(), ' [loop body]' if self.in_loop else '')


def empty_range_exit(top, m):
    """a path of a range method that leaves at once because the range handed in is empty (begin == end, r.empty(), r.size() == 0):
    nothing to do, no state effect, no answer owed"""
    # ut_map / ut_set purge before looking at the range: the purge (its loop and the range erase of the ttl prefix) is not the range's work
    pl = set(purge_loops(top)) if top.L.r.kind == 'maplist' else set()
    if any(i not in pl for i in range(len(top.loops))):
        return False
    if [e for e in top.state_effects() if not (pl and e.kind == 'AUX_ERASE_RANGE')]:
        return False
    if [e for e in top.effects if e.kind in ('OUT_WR', 'OUT_CALL') and getattr(e, 'name', None) not in ('reserve',)]:
        return False
    from symex import root_of
    for c in top.conds:
        raw, rt = c[4], c[5]
        if not (isinstance(raw, tuple) and raw):
            continue
        if raw[0] == 'cmp' and raw[1] in ('==', '!='):
            a, b = raw[2], raw[3]
            both_range = all(isinstance(x, tuple) and x and (x[0] == 'p' or (x[0] == 'q' and x[1] in ('begin', 'end', 'cbegin', 'cend')
                                                                         and root_of(x[2])[0] == 'param')) for x in (a, b))
            if both_range and ((raw[1] == '==') == bool(rt)):
                return True
            for x, y in ((a, b), (b, a)):
                if isinstance(x, tuple) and x and x[0] == 'q' and x[1] == 'size' and root_of(x[2])[0] == 'param' and y == ('int', 0) \
                        and ((raw[1] == '==') == bool(rt)):
                    return True
        if raw[0] == 'q' and raw[1] == 'empty' and root_of(raw[2])[0] == 'param' and bool(rt):
            return True
    return False


def empty_container_exit(top, m):
    """a single-key lookup / erase path that leaves at once because the container holds nothing (an emptiness test said so): no state
    effect, and the answer is the miss answer (empty optional / false / 0) - the index need not be consulted to know the key is absent"""
    if top.loops or top.state_effects() or kind_of(m) not in ('FIND', 'ERASE'):
        return False
    if not any(lift.emptiness(c) is False for c in top.conds):
        return False
    is_range = m.name.endswith('_range') or m.name.endswith('_range_fill') or any(p.get('name') in ('begin', 'end') for p in m.params)
    if is_range and kind_of(m) != 'ERASE':
        return False        # a range lookup owes an answer per key even when nothing is stored
    r = top.ret
    if r is None:
        return False
    if r in (('bool', False), ('int', 0), ('global', 'nullopt')):
        return True
    return isinstance(r, tuple) and len(r) > 2 and r[0] == 'ctor' and 'optional' in str(r[1]) and (not r[2] or r[2] == (('global', 'nullopt'),))


def nothing_to_do(top):
    """a path of clean_expired_values / dynamically_age / a purge that leaves at once because the container is empty: no loop, no
    state effect, returns 0 (literally or through a count that was initialised to 0 and never stepped)"""
    if top.state_effects():
        return False
    if top.loops:
        # the only loop is an effect-free scan of the expired prefix whose boundary the path found still at the head: nothing expired
        bounds = scan_boundaries(top)
        if len(top.loops) != 1 or len(bounds) != 1:
            return False
        (nm, lid), = bounds.keys()
        if not any(c[0] == 'IT_AT_BEGIN' and c[2] is True and isinstance(c[1][0], tuple) and c[1][0][:3] == ('lv', nm, lid) for c in top.conds):
            return False
    else:
        empty = any(lift.emptiness(c) is False for c in top.conds)
        # ... or because the oldest entry of the deadline-ordered ttl list is still alive: nothing has expired
        head_alive = any(c[0] == 'EXPIRED' and c[2] is False and isinstance(c[1][0], Ent) and c[1][0].kind in ('FRONT', 'AUXHEAD', 'AUXHEADNODE')
                         and (c[1][0].epoch or 0) == 0 for c in top.conds)
        if not empty and not head_alive:
            return False
    r = top.ret
    if r == ('int', 0):
        return True
    if isinstance(r, tuple) and r and r[0] == 'var':
        v = tally_var(r)
        ws = local_writes(top, v)
        return len(ws) == 1 and ws[0].val == ('int', 0)
    return False


def feasible_iters(segs):
    out = []
    for s in segs:
        ok, _ = feasible(s)
        if ok:
            out.append(s)
    return out


def find_bodies(seg, method, top=None):
    top = top or seg
    if seg.conds_of('PRESENT'):
        return [Body(seg, method, top, seg.loop)]
    out = []
    for lp, segs in seg.loops:
        for s in feasible_iters(segs):
            out += find_bodies(s, method, top)
    return out


def scan_boundaries(parent):
    """{(variable name, loop id): (Loop, [iteration segments])} for every effect-free loop of `parent` that walks a local iterator node
    by node while the node is expired: after it, the variable stands at the first node that is not expired (or at the end)"""
    out = {}
    for lp, segs in parent.loops:
        segs2 = [s for s in segs if s.status != 'exit']
        if not segs2 or any(s.state_effects() for s in segs2):
            continue
        conts = [s for s in segs2 if s.status == 'continue']
        if not conts:
            continue
        names = set()
        ok = True
        for s in conts:
            ex = [c for c in s.conds if c[0] == 'EXPIRED' and c[2] is True and isinstance(c[1][0], Ent) and c[1][0].kind == 'LV']
            if not ex:
                ok = False
                break
            nm = ex[0][1][0].arg
            adv = [e for e in s.effects if e.kind == 'LOCAL' and e.loc[1] == nm and isinstance(e.val, tuple) and e.val and e.val[0] == 'adv'
                   and e.val[1] == 1]
            if len(adv) != 1:
                ok = False
                break
            names.add(nm)
        if ok and len(names) == 1:
            out[(names.pop(), lp.id)] = (lp, segs)
    return out


def sweep_bound(s):
    """iteration of a loop that runs a local iterator up to the boundary a preceding scan loop established: -> (var, boundary key) or None"""
    par = s.parent
    if par is None:
        return None
    bounds = scan_boundaries(par)
    if not bounds:
        return None
    for c in s.conds:
        raw, rawtruth = c[4], c[5]
        if not (isinstance(raw, tuple) and raw and raw[0] == 'cmp' and raw[1] in ('!=', '==')):
            continue
        differs = (raw[1] == '!=') == bool(rawtruth)
        for x, y in ((raw[2], raw[3]), (raw[3], raw[2])):
            if isinstance(x, tuple) and isinstance(y, tuple) and x and y and x[0] == 'lv' and y[0] == 'lv' and len(y) > 3 and y[3] == 'post' \
                    and (y[1], y[2]) in bounds and len(x) > 3 and x[3] == 'iter' and differs:
                return x[1], (y[1], y[2])
    return None


def is_purge_iter(s):
    """ut_map/ut_set purge iteration: EXPIRED(node) guard (or: node before the boundary of a preceding expired-prefix scan), unbinds
    exactly that node's key"""
    if not s.conds_of('EXPIRED') and not s.conds_of('EXPIRED_STRICT') and sweep_bound(s) is None:
        return False
    st = s.state_effects()
    return bool(st) and all((e.kind == 'UNBIND' and e.ent.kind == 'VIA') or
                            (e.kind == 'AUX_DEL' and e.ent is not None and e.ent.kind == 'FRONT' and getattr(e, 'how', '') == 'pop_front')
                            for e in st) and any(e.kind == 'UNBIND' for e in st)


def purge_loops(seg):
    """loops of `seg` that walk the ttl list removing expired nodes (ut_map / ut_set do_prune)"""
    out = []
    for i, (lp, segs) in enumerate(seg.loops):
        segs2 = [s for s in segs if s.status != 'exit']
        if lp.kind in ('for', 'while') and segs2 and all(is_purge_iter(s) or not s.state_effects() for s in segs2) \
                and any(is_purge_iter(s) for s in segs2):
            out.append(i)
    return out


def purge_effects(seg):
    """top-level effects of seg that belong to the purge (the range erase following the purge loop)"""
    return [e for e in seg.effects if e.kind == 'AUX_ERASE_RANGE']


def body_effects(b, roles):
    """state effects of the single-key operation itself (purge effects of ut_* excluded)"""
    effs = b.seg.state_effects()
    if roles.kind == 'maplist':
        effs = [e for e in effs if e.kind != 'AUX_ERASE_RANGE']
    return effs


def nonpurge_loop_effects(b, roles):
    """effects inside loops nested in a body that are not purge loops (unexpected)"""
    out = []
    pl = set(purge_loops(b.seg)) if roles.kind == 'maplist' else set()
    for i, (lp, segs) in enumerate(b.seg.loops):
        if i in pl:
            continue
        for s in segs:
            out += [(lp, e) for e in s.state_effects()]
    return out


def removal_group(effs, ent_key=None):
    """split effects into REMOVE groups: each UNBIND with the CNT-/PART-/AUX_DEL/MOVE that go with it"""
    return [e for e in effs if e.kind == 'UNBIND']


def bodiless_iterations(top):
    """iterations of a loop that contains single-key operations but that do not themselves consult the index
    (an element of the range is handled without performing the single operation)"""
    out = []
    any_body = bool(find_bodies(top, None)) if top.loops else True
    for lp, segs in top.loops:
        fs = feasible_iters(segs)
        has = [s for s in fs if s.conds_of('PRESENT') or any(find_bodies(x, None) for x in [s] if x.loops)]
        if not has:
            if not any_body:
                # a path of a range method on which no element ever reaches the index, yet answers are handed out per element
                for s in fs:
                    if s.status != 'exit' and [e for e in s.effects if e.kind in ('OUT_WR', 'OUT_CALL')]:
                        out.append((lp, s))
            continue
        for s in fs:
            if s.status == 'exit':
                continue
            if s.status in ('break', 'ret') and not s.state_effects() and not [e for e in s.effects if e.kind in ('OUT_WR', 'OUT_CALL')]:
                continue      # the loop's own exit test (for(;;) { if (it == end) break; ... })
            if not s.conds_of('PRESENT') and not find_bodies(s, None):
                out.append((lp, s))
    return out


def tally_var(ret):
    """(name, uid) of the local variable whose final value a method returns, if the returned term is such a variable"""
    if isinstance(ret, tuple) and ret:
        if ret[0] == 'lv':
            return (ret[1], ret[4] if len(ret) > 4 and ret[4] != 'param' else None)
        if ret[0] == 'var':
            return (ret[1], ret[2] if len(ret) > 2 else None)
    return None


def is_var(loc, var):
    return (var is not None and isinstance(loc, tuple) and loc and loc[0] == 'var' and loc[1] == var[0]
            and (var[1] is None or len(loc) < 3 or loc[2] == var[1]))


def local_writes(seg, var, decl=None):
    out = [e for e in seg.effects if e.kind == 'LOCAL' and is_var(e.loc, var)]
    # `x += 0` / `x = x`: not a change
    out = [e for e in out if not (e.how != 'decl' and isinstance(e.val, tuple) and e.val and e.val[0] == 'lv' and e.val[1] == var[0])]
    if decl is True:
        out = [e for e in out if e.how == 'decl']
    elif decl is False:
        out = [e for e in out if e.how != 'decl']
    return out


def is_increment(e, var):
    v = e.val
    return isinstance(v, tuple) and v and v[0] == 'add' and v[2] == 1 and isinstance(v[1], tuple) and v[1][0] == 'lv' and v[1][1] == var[0]


def ctor_sizes_field(paths, loc):
    """the constructor gives the container member `loc` exactly `capacity` value-initialised elements: constructed with the capacity
    argument in the member-initialiser list, or default-constructed and then resized once with it in the body"""
    for p in paths:
        init = None
        calls = []
        for e in p.trace:
            if e[0] == 'init' and e[1] == loc:
                init = e[2]
            elif e[0] == 'call' and e[1] == loc:
                calls.append(e)
        if isinstance(init, tuple) and init and init[0] == 'ctor' and len(init[2]) >= 1 and init[2][0] == ('p', 'capacity'):
            if any(c[2] in ('resize', 'assign', 'clear', 'push_back', 'emplace_back', 'pop_back', 'erase', 'insert', 'emplace') for c in calls):
                return False
            continue
        empty = init is None or init == ('default',) or (isinstance(init, tuple) and init and init[0] == 'ctor' and not init[2])
        sizing = [c for c in calls if c[2] in ('resize', 'assign', 'clear', 'push_back', 'emplace_back', 'pop_back', 'erase', 'insert', 'emplace')]
        if not (empty and len(sizing) == 1 and sizing[0][2] == 'resize' and tuple(sizing[0][3]) == (('p', 'capacity'),)):
            return False
    return bool(paths)
