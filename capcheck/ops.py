"""Entry-point kinds and operation bodies shared by the sequential rules."""
import lift
from lift import Ent, feasible

KIND = {
    'insert': 'INSERT', 'insert_range': 'INSERT',
    'erase': 'ERASE', 'erase_range': 'ERASE',
    'find': 'FIND', 'find_range': 'FIND', 'find_range_fill': 'FIND', 'find_with_use_count': 'FIND',
    'clean_expired_values': 'CLEAN', 'dynamically_age': 'AGE', 'clear': 'CLEAR', 'update_ttl': 'CFG',
    'size': 'OBS', 'empty': 'OBS', 'capacity': 'OBS',
}


def kind_of(m):
    return KIND.get(m.name, 'UNKNOWN')


def is_range_method(m):
    return m.name.endswith('_range') or m.name == 'find_range_fill' or (m.template is not None) or \
        any(p.get('name') in ('begin', 'end') for p in m.params)


class Body:
    """one single-key operation: a method-level segment or one loop iteration of a range method"""

    def __init__(self, seg, method, top, in_loop):
        self.seg = seg
        self.method = method
        self.top = top            # the method-level segment it belongs to
        self.in_loop = in_loop    # the Loop it is an iteration of, or None

    @property
    def where(self):
        return '%s%s' % (self.method.key(), ' [loop body]' if self.in_loop else '')


def feasible_iters(segs):
    out = []
    for s in segs:
        ok, _ = feasible(s)
        if ok:
            out.append(s)
    return out


def find_bodies(seg, method, top=None):
    top = top or seg
    if seg.conds_of('PRESENT'):
        return [Body(seg, method, top, seg.loop)]
    out = []
    for lp, segs in seg.loops:
        for s in feasible_iters(segs):
            out += find_bodies(s, method, top)
    return out


def is_purge_iter(s):
    """ut_map/ut_set purge iteration: EXPIRED(node) guard, unbinds exactly that node's key"""
    if not s.conds_of('EXPIRED') and not s.conds_of('EXPIRED_STRICT'):
        return False
    st = s.state_effects()
    return all(e.kind == 'UNBIND' and e.ent.kind == 'VIA' for e in st)


def purge_loops(seg):
    """loops of `seg` that walk the ttl list removing expired nodes (ut_map / ut_set do_prune)"""
    out = []
    for i, (lp, segs) in enumerate(seg.loops):
        segs2 = [s for s in segs if s.status != 'exit']
        if lp.kind in ('for', 'while') and segs2 and all(is_purge_iter(s) or not s.state_effects() for s in segs2) \
                and any(is_purge_iter(s) for s in segs2):
            out.append(i)
    return out


def purge_effects(seg):
    """top-level effects of seg that belong to the purge (the range erase following the purge loop)"""
    return [e for e in seg.effects if e.kind == 'AUX_ERASE_RANGE']


def body_effects(b, roles):
    """state effects of the single-key operation itself (purge effects of ut_* excluded)"""
    effs = b.seg.state_effects()
    if roles.kind == 'maplist':
        effs = [e for e in effs if e.kind != 'AUX_ERASE_RANGE']
    return effs


def nonpurge_loop_effects(b, roles):
    """effects inside loops nested in a body that are not purge loops (unexpected)"""
    out = []
    pl = set(purge_loops(b.seg)) if roles.kind == 'maplist' else set()
    for i, (lp, segs) in enumerate(b.seg.loops):
        if i in pl:
            continue
        for s in segs:
            out += [(lp, e) for e in s.state_effects()]
    return out


def removal_group(effs, ent_key=None):
    """split effects into REMOVE groups: each UNBIND with the CNT-/PART-/AUX_DEL/MOVE that go with it"""
    return [e for e in effs if e.kind == 'UNBIND']


def bodiless_iterations(top):
    """iterations of a loop that contains single-key operations but that do not themselves consult the index
    (an element of the range is handled without performing the single operation)"""
    out = []
    for lp, segs in top.loops:
        fs = feasible_iters(segs)
        has = [s for s in fs if s.conds_of('PRESENT') or any(find_bodies(x, None) for x in [s] if x.loops)]
        if not has:
            continue
        for s in fs:
            if s.status == 'exit':
                continue
            if not s.conds_of('PRESENT') and not find_bodies(s, None):
                out.append((lp, s))
    return out
