"""TTL rules: C04 (safety), C05 (retention / deadline provenance), C16 (expired-first), C17 (clean)."""
import re
import lift
import ops
from lift import Ent, is_ld, ld0
from model import THIS, TTL_CONTAINERS
from report import Violation
from rules_seq import (V, method_segments, site_of_seg, first_site, found_expired, where_of, same_ent, same_key, TTL_CACHES,
                       actual_class, expected_insert_classes, net)
from stdmodel import typeclass
from symex import show, show_site


def yielded_values(seg):
    """terms of non-empty optionals / true membership results produced on this segment (returns of inlined do_find ...)"""
    out = []
    for e in seg.events:
        if e[0] == 'ret':
            t = e[1]
            if isinstance(t, tuple) and t[0] == 'ctor' and typeclass(t[1]) == 'optional' and t[2]:
                out.append((t, e[2]))
            elif isinstance(t, tuple) and t[0] == 'bool' and t[1] is True:
                out.append((t, e[2]))
    return out


def clock_syms(top):
    return [e.sym for e in top.effects if e.kind == 'CLOCK']


def top_of(seg):
    while seg.parent is not None:
        seg = seg.parent
    return seg


# ---------------------------------------------------------------------------------------------- C04

def rule_c04(an, res):
    prop = 'C04'
    for cm, roles in an.classes(TTL_CONTAINERS):
        for m in an.entry_points(cm):
            k = ops.kind_of(m)
            for top in method_segments(an, cm, roles, m, res):
                if k == 'FIND':
                    clocks = clock_syms(top)
                    for b in ops.find_bodies(top, m):
                        seg = b.seg
                        if seg.cond('PRESENT') is not True:
                            continue
                        from rules_misc import outcome
                        y = outcome(b, roles)
                        served = (isinstance(y, tuple) and y and ((y[0] == 'ctor' and typeclass(y[1]) == 'optional' and bool(y[2])
                                                                  and y[2][0] != ('global', 'nullopt')) or y == ('bool', True)))
                        if not served:
                            continue
                        ys = [(y, site_of_seg(seg, m))]
                        if cm.name in TTL_CACHES:
                            live = [c for c in seg.conds if c[0] == 'EXPIRED' and c[2] is False and c[1][0].kind == 'FOUND'
                                    and same_key(c[1][0], seg) and c[1][1] in clocks]
                            wrong = [c for c in seg.conds if c[0] == 'EXPIRED_STRICT' and c[1][0].kind == 'FOUND']
                            ok = bool(live)
                            res.ob('R-LIVE-GUARD', ok=ok)
                            res.sample(dict(container=cm.name, method=b.where, valuation=' '.join(seg.valuation()),
                                            guard=show(live[0][4]) if live else None), cap=8)
                            if not ok:
                                d = ('value served under `now <= deadline` (boundary instant served)' if wrong else
                                     'value served without the strict test now < deadline of the found entry')
                                V(res, prop, 'R-LIVE-GUARD', cm, b.where, d, ys[0][1],
                                  'lookup path [%s] yields a value but is not dominated by now < expire_time of that entry with the call\'s own clock sample'
                                  % ' '.join(seg.valuation()))
                        else:
                            res.ob('R-LIVE-GUARD', ok=True)   # ut_*: liveness comes from purge-first + ORD (below)
                if cm.name in ('ut_map', 'ut_set') and k in ('INSERT', 'ERASE', 'FIND', 'CLEAN'):
                    from rules_seq import check_purge_first
                    check_purge_first(res, prop, cm, roles, m, top)
                    check_purge_shape(res, prop, cm, roles, m, top)
                if k == 'INSERT':
                    for b in ops.find_bodies(top, m):
                        check_refile(res, prop, cm, roles, m, b)
                if k == 'CFG':
                    # "the TTL in force for that write" is whatever update_ttl stored: it must store its argument, always
                    effs = top.state_effects()
                    ok = cfg_store_ok(top, roles, m, effs)
                    res.ob('R-CFG-ONLY', ok=ok)
                    if not ok:
                        V(res, prop, 'R-CFG-ONLY', cm, m.key(), 'update_ttl does not unconditionally store the new duration',
                          first_site(effs, top, m), 'path [%s] effects: %s' % (' '.join(top.valuation()), [repr(e) for e in effs][:4]))
        if cm.name in ('ut_map', 'ut_set'):
            check_ord_witness_B(an, res, prop, cm, roles)
        # tlru/utlru lookups test the found entry's own deadline: no ordering premise needed for C04


def deadline_effects(seg):
    return [e for e in seg.effects if e.kind == 'DEADLINE']


def check_stale_positions(res, prop, cm, roles, m, seg):
    """a position computed with std::prev / std::next before a list was re-linked and stored into an element afterwards names the
    neighbour of then: the element's stored position no longer denotes its own node"""
    for e in seg.effs('STALE_POS'):
        fe = seg.L.field_of_elem(e.loc)
        if fe is None or fe[1] not in roles.backptrs:
            continue
        res.ob('R-REFILE-ON-UPDATE', ok=False)
        V(res, prop, 'R-REFILE-ON-UPDATE', cm, where_of(m, seg), 'stored position %s computed before the list was re-linked' % fe[1], e.site,
          'path [%s]: %s := %s was evaluated before the splice / erase that follows it in the code: it denotes another entry\'s node'
          % (' '.join(seg.valuation()), show(e.loc), show(e.val)))


def check_refile(res, prop, cm, roles, m, b):
    check_stale_positions(res, prop, cm, roles, m, b.seg)
    """R-REFILE-ON-UPDATE / deadline written on every write path, ttl structure keyed/positioned consistently"""
    seg = b.seg
    effs = ops.body_effects(b, roles)
    cls = actual_class(effs)
    present = seg.cond('PRESENT')
    val = ' '.join(seg.valuation())
    if cls not in ('UPDATE', 'BIND'):
        # on a row the allow table demands to write, missing writes are reported by C09; here: a deadline must not change on rejected rows
        if deadline_effects(seg):
            res.ob('R-REFILE-ON-UPDATE', ok=False)
            V(res, prop, 'R-REFILE-ON-UPDATE', cm, b.where, 'deadline written on a path that does not write the entry', deadline_effects(seg)[0].site,
              'path [%s]' % val)
        elif present is True:
            # a write the caller is told succeeded restarts the entry's ttl: reporting success while the old deadline stays makes
            # every later expiry decision (lookup, purge, expired-first eviction) use a deadline the entry no longer has
            from rules_seq import ret_truth, tally_info
            if b.in_loop is None:
                claimed = ret_truth(seg) is True
            else:
                name, incs = tally_info(b.top, b)
                claimed = name is not None and any(e.how != 'decl' and ops.is_increment(e, name) for e in incs)
            res.ob('R-REFILE-ON-UPDATE', ok=not claimed)
            if claimed:
                V(res, prop, 'R-REFILE-ON-UPDATE', cm, b.where, 'write reported successful leaves the old deadline in place', site_of_seg(seg, m),
                  'path [%s]: the operation reports success for a resident key but neither its deadline nor its ttl position changes' % val)
        return
    dls = deadline_effects(seg)
    if cls == 'UPDATE':
        want_ent = next((c[1][0] for c in seg.conds if c[0] == 'PRESENT'), None)
    aux = roles.ttl_struct
    ok = True
    why = None
    if roles.kind == 'maplist' and cls == 'BIND':
        add = [e for e in effs if e.kind == 'AUX_ADD' and e.aux == aux]
        if len(add) != 1 or add[0].how not in ('emplace_back', 'push_back') or add[0].key is None:
            ok, why = False, 'new entry is not appended (with its deadline) at the back of the ttl list'
        elif dls:
            ok, why = False, 'another node\'s deadline is rewritten while binding a new key'
        else:
            bind = seg.effs('BIND')[0]
            bp = [e for e in effs if e.kind == 'BACKPTR' and roles.backptrs.get(e.field) == aux]
            if add[0].ent.kind != 'NEW' or add[0].ent.arg != bind.res[1]:
                ok, why = False, 'appended ttl node does not point at the newly bound key'
            elif len(bp) != 1 or bp[0].ent.kind != 'NEW' or bp[0].ent.arg != bind.res[1] or \
                    not (is_last_of(bp[0].val, aux) or bp[0].val == add[0].res):     # prev(end()) after the append, or list::emplace's result
                ok, why = False, 'stored ttl position of the new key is not the appended node'
    elif len(dls) <= 1 and cls == 'UPDATE' and roles.kind == 'slotvec' and same_deadline_skip(seg, roles, aux) is not None:
        # (a store of the deadline the path just found equal to the stored one changes nothing)
        # the path established that the stored deadline already equals the new one and left deadline and ttl entry alone
        verdict = same_deadline_skip(seg, roles, aux)
        if verdict == 'last':
            ok = True        # the entry is the last one of the ttl structure: erase + emplace under the same key would put it back there
        else:
            msg = ('G-UNKNOWN ttl re-file skipped for an unchanged deadline depending on the neighbouring entry\'s key (place among equal '
                   'deadlines not modelled) in %s reached from %s::%s' % (show_site(site_of_seg(seg, m)), cm.name, m.key()))
            if msg not in res.incomplete:
                res.incomplete.append(msg)
            return
    elif len(dls) != 1:
        ok, why = False, 'the entry\'s deadline is written %d times (expected once)' % len(dls)
    else:
        dl = dls[0]
        if roles.kind == 'maplist':
            if cls == 'UPDATE':
                mv = [e for e in effs if e.kind == 'AUX_MOVE' and e.aux == aux]
                good = [e for e in mv if is_end_of(e.dest, aux) and e.nargs == 3]
                if not good and not already_last(seg, dl.ent, aux):
                    ok, why = False, 'updated entry is not moved to the back of the ttl list'
                # the element's stored ttl position after the update: its own node (unchanged, or the iterator that was spliced), or
                # `std::prev(end())` taken AFTER the splice - taken before it, that is the previous last node (another key's)
                for bp in [e for e in effs if e.kind == 'BACKPTR' and roles.backptrs.get(e.field) == aux]:
                    if ok and is_last_of(bp.val, aux) and good and not already_last(seg, dl.ent, aux) and \
                            seg.effects.index(bp) < seg.effects.index(good[0]):
                        ok, why = False, 'stored ttl position is set to std::prev(end()) before the node is spliced to the back (it names the previous last node)'
            else:
                add = [e for e in effs if e.kind == 'AUX_ADD' and e.aux == aux]
                if len(add) != 1 or add[0].how not in ('emplace_back', 'push_back'):
                    ok, why = False, 'new entry is not appended at the back of the ttl list'
                elif add[0].key != dl.val if False else False:
                    pass
        elif prop in ('C03', 'C04', 'C05', 'C10') and typeclass(cm.field_by_name[aux].type) != 'multimap':
            pass     # no keyed ttl structure: lookups and removal guards read the entry's own deadline (order is C16/C17's concern)
        else:
            adds = [e for e in effs if e.kind == 'AUX_ADD' and e.aux == aux]
            dels = [e for e in effs if e.kind == 'AUX_DEL' and e.aux == aux]
            if len(adds) != 1:
                ok, why = False, 'entry is filed %d times in the ttl structure (expected once)' % len(adds)
            elif adds[0].key != dl.val:
                ok, why = False, 'ttl structure key %s differs from the stored deadline %s' % (show(adds[0].key), show(dl.val))
            elif not same_ent(adds[0].ent, dl.ent):
                ok, why = False, 'ttl structure entry is filed for a different slot (%r) than the one whose deadline is written (%r)' % (adds[0].ent, dl.ent)
            elif cls == 'UPDATE' and (len(dels) != 1 or not same_ent(dels[0].ent, dl.ent)):
                ok, why = False, 'old ttl entry of the updated slot is not removed exactly once'
            else:
                bp = [e for e in effs if e.kind == 'BACKPTR' and roles.backptrs.get(e.field) == aux]
                if len(bp) != 1 or bp[0].val != adds[0].res or not same_ent(bp[0].ent, dl.ent):
                    ok, why = False, 'stored ttl position is not refreshed to the new ttl entry'
                elif cls == 'UPDATE':
                    # the removal must use the old position: it has to precede the back-pointer refresh
                    if seg.effects.index(dels[0]) > seg.effects.index(bp[0]):
                        ok, why = False, 'old ttl entry is removed through the already refreshed position'
    res.ob('R-REFILE-ON-UPDATE', ok=ok)
    if not ok:
        V(res, prop, 'R-REFILE-ON-UPDATE', cm, b.where, '%s path: %s' % (cls.lower(), why.split(' %')[0] if why else ''), first_site(dls or effs, seg, m),
          'on %s path [%s]: %s' % (cls, val, why))


def same_deadline_skip(seg, roles, aux):
    """an update path that writes neither deadline nor ttl entry: 'last' if it established stored deadline == new deadline (a term of the
    call's clock sample) and that the entry is the last of the ttl structure, 'neighbour' if instead it looked at the next entry's key,
    None if it established no such equality"""
    if [e for e in seg.effects if e.kind in ('AUX_ADD', 'AUX_DEL', 'AUX_MOVE') and getattr(e, 'aux', None) == aux]:
        return None
    dl = getattr(roles, 'deadline', None)
    same = False
    for c in seg.conds:
        raw = c[4]
        if isinstance(raw, tuple) and len(raw) == 4 and raw[0] == 'cmp' and raw[1] in ('==', '!=') and (raw[1] == '==') == bool(c[5]):
            for x, y in ((raw[2], raw[3]), (raw[3], raw[2])):
                if is_ld(x) and x[2][0] == 'fld' and x[2][2] == dl and any(isinstance(t, tuple) and t[:1] == ('now',) for t in lift.subterms(y)):
                    same = True
    if not same:
        return None
    # only an otherwise complete update qualifies (value stored, recency refreshed): an early return that drops those is reported as before
    if not seg.effs('VAL') or not (seg.effs('MOVE') or any(c[0] in ('IS_FRONT', 'IS_LAST_USED') and c[2] is True for c in seg.conds)):
        return None
    if any(c[0] == 'IS_AUX_LAST' and c[2] is True and c[1][1] == aux for c in seg.conds):
        return 'last'
    return 'neighbour'


def is_end_of(t, aux):
    return isinstance(t, tuple) and t[0] == 'q' and t[1] in ('end', 'cend') and t[2] == THIS(aux)


def is_last_of(t, aux):
    """prev(aux.end())"""
    return isinstance(t, tuple) and t[0] == 'adv' and t[1] == -1 and is_end_of(t[2], aux)


def is_begin_of(t, aux):
    return isinstance(t, tuple) and t[0] == 'q' and t[1] in ('begin', 'cbegin') and t[2] == THIS(aux)


def head_copied_before(s, dl, aux):
    """`const auto oldest = m_ttl_list.front();` ahead of the pop: the key position is read from the copy, the node may go first (a
    reference instead of a copy reads the freed node - C08 R-ITER-TS)"""
    i = s.effects.index(dl)
    for e in s.effects[:i]:
        if e.kind == 'LOCAL' and getattr(e, 'how', '') == 'decl' and isinstance(e.val, tuple):
            v = e.val[2] if is_ld(e.val) else e.val
            if isinstance(v, tuple) and v[:1] == ('deref',) and isinstance(v[1], tuple) and v[1][:2] in (('q', 'begin'), ('q', 'cbegin')) \
                    and len(v[1]) > 2 and v[1][2] == THIS(aux):
                return True
    return False


def check_purge_shape(res, prop, cm, roles, m, top):
    """ut_*: the purge walks the ttl list from its head, removes a node's key iff now >= its deadline (inclusive), stops at the
    first live node, and erases exactly the visited prefix"""
    pl = ops.purge_loops(top)
    if not pl:
        return  # reported by R-PURGE-FIRST
    aux = roles.ttl_struct
    clocks = clock_syms(top)
    for i in pl[:1]:
        lp, segs = top.loops[i]
        exits = top.loop_exits.get(id(lp), [])
        ok = True
        why = None
        if any(e.kind == 'AUX_DEL' for s in segs for e in s.effects):
            # pop-front style purge: while the list is non-empty and its head is expired (inclusive), drop the head and its key
            for s in segs:
                ex = [c for c in s.conds if c[0] in ('EXPIRED', 'EXPIRED_STRICT')]
                ne = s.cond('AUX_NONEMPTY')
                if s.status == 'continue':
                    unb = s.effs('UNBIND')
                    dels = [e for e in s.effects if e.kind == 'AUX_DEL' and e.aux == aux]
                    if not (ne is True and ex and ex[0][0] == 'EXPIRED' and ex[0][2] is True and ex[0][1][1] in clocks
                            and isinstance(ex[0][1][0], lift.Ent) and ex[0][1][0].kind == 'FRONT'):
                        ok, why = False, 'purge removes the head without the inclusive test now >= deadline(head) on a non-empty list'
                    elif not (len(unb) == 1 and unb[0].ent.kind == 'VIA' and unb[0].ent.arg[0] == 'FRONT' and len(dels) == 1
                              and (s.effects.index(unb[0]) < s.effects.index(dels[0]) or head_copied_before(s, dels[0], aux))):
                        ok, why = False, 'purge iteration does not remove exactly the head node and its key (key first)'
                else:
                    if not ((ex and ex[0][0] == 'EXPIRED' and ex[0][2] is False) or (ne is False and not ex)):
                        ok, why = False, 'purge stops although the head is expired'
            for s in exits:
                ex = [c for c in s.conds if c[0] in ('EXPIRED', 'EXPIRED_STRICT')]
                ne = s.cond('AUX_NONEMPTY')
                if not ((ne is False and not ex) or (ex and ex[0][0] == 'EXPIRED' and ex[0][2] is False)):
                    ok, why = False, 'purge loop exits for a reason other than an empty list or a live head (%s)' % ' '.join(s.valuation())
            res.ob('R-PURGE-SHAPE', ok=ok)
            if not ok:
                V(res, prop, 'R-PURGE-SHAPE', cm, m.key(), why, lp.site, 'purge in %s: %s' % (m.key(), why))
            continue
        sweeps = [ops.sweep_bound(s) for s in segs if s.status == 'continue']
        if sweeps and all(x is not None for x in sweeps) and not any(c[0] in ('EXPIRED', 'EXPIRED_STRICT') for s in segs for c in s.conds):
            ok, why = check_scan_sweep(top, i, sweeps, aux, clocks)
            res.ob('R-PURGE-SHAPE', ok=ok)
            if not ok:
                V(res, prop, 'R-PURGE-SHAPE', cm, m.key(), why, lp.site, 'purge in %s: %s' % (m.key(), why))
            continue
        # loop variable starts at begin(): last LOCAL write before the loop to a variable that the loop advances
        pos = top.order.index(('loop', i))
        lvname = None
        for s in segs:
            for c in s.conds:
                if c[0] == 'EXPIRED' and c[1][0].kind == 'LV':
                    lvname = c[1][0].arg
        init = None
        for k2, j in top.order[:pos]:
            if k2 == 'eff' and top.effects[j].kind == 'LOCAL' and top.effects[j].loc[1] == lvname:
                init = top.effects[j]
        if lvname is None or init is None or not is_begin_of(resolve_local(top, init.val, pos), aux):
            ok, why = False, 'purge does not start at the head of the ttl list'
        for s in segs:
            ex = [c for c in s.conds if c[0] in ('EXPIRED', 'EXPIRED_STRICT')]
            if s.status == 'continue':
                if not (ex and ex[0][0] == 'EXPIRED' and ex[0][2] is True and ex[0][1][1] in clocks):
                    ok, why = False, 'purge removes a node without the inclusive test now >= deadline on that node'
                unb = s.effs('UNBIND')
                if len(unb) != 1:
                    ok, why = False, 'purge iteration removes %d keys' % len(unb)
                adv = [e for e in s.effects if e.kind == 'LOCAL' and e.loc[1] == lvname]
                if not (len(adv) == 1 and isinstance(adv[0].val, tuple) and adv[0].val[0] == 'adv' and adv[0].val[1] == 1):
                    ok, why = False, 'purge does not advance node by node'
            elif s.status in ('break', 'ret'):
                atend = [c for c in s.conds if c[0] == 'IT_AT_END']
                if not ((ex and ex[0][2] is False) or (atend and atend[-1][2] is True and not ex)):
                    ok, why = False, 'purge stops although the current node is expired'
        for s in exits:
            ex = [c for c in s.conds if c[0] in ('EXPIRED', 'EXPIRED_STRICT')]
            atend = [c for c in s.conds if c[0] == 'IT_AT_END']
            fine = (atend and atend[-1][2] is True and not ex) or (ex and ex[0][0] == 'EXPIRED' and ex[0][2] is False)
            if not fine:
                ok, why = False, 'purge loop exits for a reason other than end-of-list or a live node (%s)' % ' '.join(s.valuation())
        # the range erase
        er = [e for e in top.effects if e.kind == 'AUX_ERASE_RANGE' and e.aux == aux]
        noerase_ok = any(c[0] == 'IT_AT_BEGIN' and c[2] is True for c in top.conds)
        # ... or the path established that the purge tally is still zero (no node was visited)
        for c in top.conds:
            if c[0] == 'OTHER' and isinstance(c[4], tuple) and c[4][0] == 'cmp':
                nc = lift.norm_cmp(c[4])
                atoms, cst, nop = nc
                ks = list(atoms)
                if len(ks) == 1 and isinstance(ks[0], tuple) and ks[0][0] == 'lv' and ks[0][2] == lp.id and cst == 0:
                    zero = (nop == '==' and c[2]) or (nop == '!=' and not c[2]) or (nop == '<' and atoms[ks[0]] == -1 and not c[2]) \
                        or (nop == '<=' and atoms[ks[0]] == 1 and c[2])
                    if zero:
                        noerase_ok = True
        if er:
            e = er[0]
            if not (is_begin_of(resolve_local(top, e.first, None), aux) and isinstance(e.last, tuple) and e.last[0] == 'lv' and e.last[1] == lvname):
                ok, why = False, 'the erased ttl range is not [head, first live node)'
        elif not noerase_ok:
            ok, why = False, 'visited ttl nodes are not erased'
        res.ob('R-PURGE-SHAPE', ok=ok)
        if not ok:
            V(res, prop, 'R-PURGE-SHAPE', cm, m.key(), why, lp.site, 'purge in %s: %s' % (m.key(), why))


def already_last(seg, ent, aux):
    """the path established that the entry's node is the last node of the ttl list (moving it to the back would change nothing)"""
    for c in seg.conds_of('IS_AUX_LAST'):
        if c[2] is True and c[1][1] == aux and isinstance(c[1][0], Ent):
            e0 = c[1][0]
            if same_ent(e0, ent) or (ent is not None and ent.kind == 'TTLOF' and ent.arg == e0.key()):
                return True
    return False


def check_scan_sweep(top, i, sweeps, aux, clocks):
    """two-pass purge: (1) an effect-free scan from the head while now >= deadline(node) leaves B at the first live node;
    (2) a sweep from the head up to B removes each visited node's key; (3) [head, B) is erased from the ttl list"""
    lp, segs = top.loops[i]
    var = sweeps[0][0]
    bkey = sweeps[0][1]
    if any(x != (var, bkey) for x in sweeps):
        return False, 'sweep iterations disagree about their bound'
    bounds = ops.scan_boundaries(top)
    slp, ssegs = bounds[bkey]
    spos = next(p for p, (k2, j) in enumerate(top.order) if k2 == 'loop' and top.loops[j][0] is slp)
    wpos = top.order.index(('loop', i))
    if spos > wpos:
        return False, 'the expired prefix is swept before it is measured'

    def init_of(name, before):
        v = None
        for k2, j in top.order[:before]:
            if k2 == 'eff' and top.effects[j].kind == 'LOCAL' and top.effects[j].loc[1] == name:
                v = top.effects[j]
        return v
    si = init_of(bkey[0], spos)
    if si is None or not is_begin_of(resolve_local(top, si.val, spos), aux):
        return False, 'the scan for the first live node does not start at the head of the ttl list'
    for s in ssegs:
        ex = [c for c in s.conds if c[0] in ('EXPIRED', 'EXPIRED_STRICT')]
        atend = [c for c in s.conds if c[0] == 'IT_AT_END']
        if s.status == 'continue':
            if not (ex and ex[0][0] == 'EXPIRED' and ex[0][2] is True and ex[0][1][1] in clocks):
                return False, 'the scan passes a node without the inclusive test now >= deadline on that node'
        else:
            if not ((ex and ex[0][0] == 'EXPIRED' and ex[0][2] is False) or (atend and atend[-1][2] is True and not ex)):
                return False, 'the scan stops although the current node is expired'
    for s in top.loop_exits.get(id(slp), []):
        ex = [c for c in s.conds if c[0] in ('EXPIRED', 'EXPIRED_STRICT')]
        atend = [c for c in s.conds if c[0] == 'IT_AT_END']
        if not ((atend and atend[-1][2] is True and not ex) or (ex and ex[0][0] == 'EXPIRED' and ex[0][2] is False)):
            return False, 'the scan loop exits for a reason other than end-of-list or a live node'
    wi = init_of(var, wpos)
    if wi is None or not is_begin_of(resolve_local(top, wi.val, wpos), aux):
        return False, 'the sweep does not start at the head of the ttl list'
    for s in segs:
        if s.status == 'exit':
            continue
        if s.status != 'continue':
            return False, 'the sweep leaves early'
        unb = s.effs('UNBIND')
        if len(unb) != 1 or unb[0].ent.kind != 'VIA' or unb[0].ent.arg[0] != 'LV' or unb[0].ent.arg[1] != var:
            return False, 'a sweep iteration does not remove exactly the visited node\'s key'
        adv = [e for e in s.effects if e.kind == 'LOCAL' and e.loc[1] == var]
        if not (len(adv) == 1 and isinstance(adv[0].val, tuple) and adv[0].val[0] == 'adv' and adv[0].val[1] == 1):
            return False, 'the sweep does not advance node by node'
    er = [e for e in top.effects if e.kind == 'AUX_ERASE_RANGE' and e.aux == aux]
    if not er:
        # nothing to erase when the path established that the boundary is still the head (B == begin(), distance(begin, B) == 0)
        for c in top.conds:
            if c[0] == 'IT_AT_BEGIN' and c[2] is True and isinstance(c[1][0], tuple) and c[1][0][:3] == ('lv', bkey[0], bkey[1]):
                return True, None
            raw = c[4]
            if c[0] == 'OTHER' and isinstance(raw, tuple) and raw[0] == 'cmp' and raw[1] in ('==', '!='):
                for x, y in ((raw[2], raw[3]), (raw[3], raw[2])):
                    if isinstance(x, tuple) and x and x[0] in ('fncall', 'cast') and y == ('int', 0):
                        d = x[2] if x[0] == 'cast' else x
                        if isinstance(d, tuple) and d[0] == 'fncall' and d[1] == 'distance' and len(d[2]) == 2 and \
                                is_begin_of(resolve_local(top, d[2][0], None), aux) and isinstance(d[2][1], tuple) and d[2][1][:3] == ('lv', bkey[0], bkey[1]):
                            if (raw[1] == '==') == bool(c[5]):
                                return True, None
        return False, 'visited ttl nodes are not erased'
    e = er[0]
    if not (is_begin_of(resolve_local(top, e.first, None), aux) and isinstance(e.last, tuple) and e.last[0] == 'lv' and e.last[1] == bkey[0]
            and e.last[2] == bkey[1]):
        return False, 'the erased ttl range is not [head, first live node)'
    return True, None


def resolve_local(top, t, pos):
    """follow a local variable's declaration value"""
    seen = 0
    while isinstance(t, tuple) and t[0] == 'var' and seen < 5:
        seen += 1
        v = None
        for e in top.effects:
            if e.kind == 'LOCAL' and e.loc == t:
                v = e.val
        if v is None:
            break
        t = v
    return t


def all_write_bodies(an, cm, roles, res=None):
    for m in an.entry_points(cm):
        if ops.kind_of(m) != 'INSERT':
            continue
        for top in method_segments(an, cm, roles, m):
            for b in ops.find_bodies(top, m):
                yield m, top, b


def check_ord_witness_A(an, res, prop, cm, roles):
    """tlru/utlru: the ttl structure is a key-ordered associative container keyed by the stored deadline"""
    aux = roles.ttl_struct
    f = cm.field_by_name[aux]
    t = f.type
    ok = typeclass(t) == 'multimap' and 'time_point' in t.split(',')[0] + t
    if not ok and typeclass(t) == 'multimap' and re.match(r'\s*std::multimap<\s*std::chrono::duration<', t):
        # keyed by the deadline kept as the duration since the clock's epoch: the same order (what is filed under the key is checked
        # by R-REFILE-ON-UPDATE / R-TTL-MIRRORS-INDEX against the element's own deadline field)
        ok = True
    # comparator: default std::less (no greater<>)
    ok = ok and 'greater' not in t
    res.ob('ORD-WITNESS', ok=ok)
    if not ok:
        V(res, prop, 'ORD-WITNESS', cm, '(class)', 'ttl structure is not a deadline-ordered multimap', f.loc,
          '%s has type %s: no static witness that its head is the entry expiring first' % (aux, t))


def check_ord_witness_B(an, res, prop, cm, roles):
    """ut_*: append-only list + immutable ttl + deadline = own clock sample + ttl  => list is deadline-ordered"""
    aux = roles.ttl_struct
    cfg = roles.ttl
    # (1) the ttl configuration field has no writer outside the constructor
    for m in an.entry_points(cm):
        for top in method_segments(an, cm, roles, m):
            for seg in top.all_segments():
                for e in seg.effects:
                    bad = None
                    if e.kind == 'CFG' and e.field == cfg:
                        bad = 'uniform ttl is modified after construction'
                    elif e.kind == 'AUX_MOVE' and e.aux == aux and not is_end_of(e.dest, aux):
                        bad = 'ttl list node moved somewhere other than the back'
                    elif e.kind == 'AUX_ADD' and e.aux == aux and e.how not in ('emplace_back', 'push_back'):
                        bad = 'ttl list insertion not at the back'
                    elif e.kind == 'AUX_OP' and e.aux == aux and e.name not in ('clear',):
                        bad = 'ttl list reordered by %s' % e.name
                    elif e.kind == 'DEADLINE':
                        v = e.val
                        clocks = clock_syms(top_of(seg))
                        good = (isinstance(v, tuple) and v[0] == 'bin' and v[1] == '+' and v[2] in clocks
                                and is_ld(v[3]) and v[3][2] == THIS(cfg))
                        if not good:
                            bad = 'deadline is not (this call\'s clock sample + uniform ttl)'
                        else:
                            # the node must end at the back on this segment
                            mv = [x for x in seg.effects if x.kind == 'AUX_MOVE' and x.aux == aux and is_end_of(x.dest, aux)]
                            if not mv and not already_last(seg, e.ent, aux):
                                bad = 'deadline rewritten without moving the node to the back of the ttl list'
                    elif e.kind == 'AUX_ADD' and e.aux == aux:
                        v = e.key
                        clocks = clock_syms(top_of(seg))
                        good = (isinstance(v, tuple) and v[0] == 'bin' and v[1] == '+' and v[2] in clocks
                                and is_ld(v[3]) and v[3][2] == THIS(cfg))
                        if not good:
                            bad = 'appended deadline is not (this call\'s clock sample + uniform ttl)'
                    if e.kind in ('CFG', 'AUX_MOVE', 'AUX_ADD', 'AUX_OP', 'DEADLINE'):
                        res.ob('ORD-WITNESS', ok=bad is None)
                    if bad:
                        V(res, prop, 'ORD-WITNESS', cm, where_of(m, seg), bad, e.site,
                          'the expired-prefix purge is only complete if the ttl list is ordered by deadline: %s' % bad)


# ---------------------------------------------------------------------------------------------- C05

def ttl_source_ok(cm, roles, m, seg, d):
    """is `d` the TTL in force for this write"""
    if cm.name == 'tlru_cache':
        if d == ('p', 'ttl'):
            return True
        # range insert: the element's own ttl (range-for element, or *it of an explicit iterator loop over the caller's range)
        if is_ld(d) and d[2][0] == 'get' and d[2][1] == 0 and d[2][2][0] == 'elem':
            return True
        if is_ld(d) and d[2][0] == 'get' and d[2][1] == 0 and d[2][2][0] == 'deref' and isinstance(d[2][2][1], tuple) and d[2][2][1][0] == 'lv' \
                and len(d[2][2][1]) > 4 and d[2][2][1][4] == 'param':
            return True
        return False
    cfg = roles.ttl
    return is_ld(d) and d[2] == THIS(cfg)


def cfg_store_ok(top, roles, m, effs):
    """update_ttl stores its argument: one direct store of the parameter, or nothing on the path that has established that the
    configured value already equals the argument"""
    p = ('p', m.params[0].get('name'))
    if len(effs) == 1 and effs[0].kind == 'CFG' and effs[0].field == roles.ttl and effs[0].direct and effs[0].val == p:
        return True
    if effs:
        return False
    for c in top.conds:
        raw = c[4]
        if isinstance(raw, tuple) and raw and raw[0] == 'cmp' and raw[1] in ('==', '!='):
            sides = {raw[2], raw[3]}
            cur = [x for x in sides if is_ld(x) and x[2] == THIS(roles.ttl)]
            if len(sides) == 2 and cur and p in sides and c[5] is (raw[1] == '=='):
                return True
    return False


def rule_c05(an, res):
    prop = 'C05'
    for cm, roles in an.classes(TTL_CONTAINERS):
        for m in an.entry_points(cm):
            k = ops.kind_of(m)
            for top in method_segments(an, cm, roles, m, res):
                clocks = clock_syms(top)
                if k == 'CFG':
                    effs = top.state_effects()
                    ok = cfg_store_ok(top, roles, m, effs)
                    res.ob('R-CFG-ONLY', ok=ok)
                    if not ok:
                        V(res, prop, 'R-CFG-ONLY', cm, m.key(), 'update_ttl does more (or less) than storing the new duration',
                          first_site(effs, top, m), 'effects: %s' % [repr(e) for e in effs][:5])
                    continue
                for seg in top.all_segments():
                    okf, _ = lift.feasible(seg)
                    if not okf:
                        continue
                    # an entry keeps the TTL in force when it was written: the configured TTL decides nothing but new deadlines
                    if roles.ttl:
                        for c in seg.conds:
                            uses = [t for t in lift.subterms(c[4]) if is_ld(t) and t[2] == THIS(roles.ttl)]
                            res.ob('R-TTL-USE', ok=not uses)
                            if uses:
                                V(res, prop, 'R-TTL-USE', cm, where_of(m, seg), 'decision depends on the currently configured ttl', c[3],
                                  'path [%s]: %s is tested; entries written earlier carry the ttl that was in force at their write, the current '
                                  'setting must only enter the deadline of new writes' % (' '.join(seg.valuation()), show(c[4])))
                                break
                    for e in seg.effects:
                        if e.kind == 'CFG' and e.field == roles.ttl:
                            res.ob('R-CFG-ONLY', ok=False)
                            V(res, prop, 'R-CFG-ONLY', cm, where_of(m, seg), 'ttl configuration written outside update_ttl', e.site,
                              '%s writes %s' % (m.key(), e.field))
                        if e.kind == 'DEADLINE':
                            v = e.val
                            ok = (isinstance(v, tuple) and v[0] == 'bin' and v[1] == '+' and v[2] in clocks and len(clocks) == 1
                                  and ttl_source_ok(cm, roles, m, seg, v[3]))
                            if not ok and isinstance(v, tuple) and v[0] == 'bin' and v[1] == '+' and v[3] in clocks and ttl_source_ok(cm, roles, m, seg, v[2]):
                                ok = len(clocks) == 1
                            if not ok and cm.name == 'tlru_cache' and isinstance(v, tuple) and v[:1] == ('p',) and \
                                    any('time_point' in (p.get('type', {}).get('qualType', '') or '') for p in m.params) and \
                                    not any('duration' in (p.get('type', {}).get('qualType', '') or '') for p in m.params):
                                # an overload that takes the absolute deadline instead of a ttl: the ttl supplied with the call is
                                # deadline - now, so the entry expires exactly at the time point handed in
                                ok = len([p for p in m.params if 'time_point' in (p.get('type', {}).get('qualType', '') or '')]) == 1
                            res.ob('R-DEADLINE-PROV', ok=ok)
                            res.sample(dict(container=cm.name, method=where_of(m, seg), deadline=show(v)), cap=8)
                            if not ok:
                                V(res, prop, 'R-DEADLINE-PROV', cm, where_of(m, seg), 'stored deadline is not now + the ttl in force for this write',
                                  e.site, 'deadline := %s (clock samples of the call: %s)' % (show(v), [show(c) for c in clocks]))
                            # who may write deadlines: only writing rows of insert
                            if k != 'INSERT':
                                res.ob('R-WHO-WRITES-DEADLINE', ok=False)
                                V(res, prop, 'R-WHO-WRITES-DEADLINE', cm, where_of(m, seg), 'deadline written by a non-insert operation', e.site,
                                  '%s changes an entry\'s expiry' % m.key())
                            else:
                                res.ob('R-WHO-WRITES-DEADLINE', ok=True)
                if k == 'INSERT':
                    for b in ops.find_bodies(top, m):
                        check_refile(res, prop, cm, roles, m, b)
                        check_write_restarts(res, prop, cm, roles, m, b)


def check_write_restarts(res, prop, cm, roles, m, b):
    """every UPDATE / BIND row writes the deadline of the written entry"""
    seg = b.seg
    effs = ops.body_effects(b, roles)
    cls = actual_class(effs)
    if cls not in ('UPDATE', 'BIND'):
        return
    dls = deadline_effects(seg)
    ok = len(dls) == 1
    if not dls and cls == 'UPDATE' and roles.kind == 'slotvec' and same_deadline_skip(seg, roles, roles.ttl_struct) is not None:
        res.ob('R-WRITE-RESTARTS-TTL', ok=True)      # the stored deadline already is the restarted one (established by a comparison on this path)
        return
    if ok and cls == 'UPDATE':
        e = dls[0].ent
        ok = e.kind == 'FOUND' or (e.kind == 'TTLOF' and e.arg[0] == 'FOUND')
    if ok and cls == 'BIND':
        bind = seg.effs('BIND')[0]
        e = dls[0].ent if dls else None
        if roles.kind != 'maplist':
            ok = same_ent(e, bind.ent)
    if cls == 'BIND' and roles.kind == 'maplist':
        # ut_*: the deadline lives in the appended ttl node
        adds = [x for x in effs if x.kind == 'AUX_ADD']
        ok = len(adds) == 1 and adds[0].key is not None
    res.ob('R-WRITE-RESTARTS-TTL', ok=ok)
    if not ok:
        V(res, prop, 'R-WRITE-RESTARTS-TTL', cm, b.where, '%s path does not (re)write the deadline of the written entry' % cls.lower(),
          first_site(effs, seg, m), 'path [%s] writes the entry but its expiry is %s' % (' '.join(seg.valuation()),
                                                                                      'left unchanged' if not dls else 'written for another entry'))


# ---------------------------------------------------------------------------------------------- C16

def rule_c16(an, res):
    prop = 'C16'
    for cm, roles in an.classes(TTL_CACHES):
        check_ord_witness_A(an, res, prop, cm, roles)
        aux = roles.ttl_struct
        # the ttl structure holds exactly the bound slots: a clear() must empty it together with the index
        for m in an.entry_points(cm):
            if ops.kind_of(m) != 'CLEAR':
                continue
            for top in method_segments(an, cm, roles, m):
                effs = top.state_effects()
                if not any(e.kind == 'INDEX_OP' and e.name == 'clear' for e in effs):
                    continue
                ok = any(e.kind == 'AUX_OP' and e.aux == aux and e.name == 'clear' for e in effs)
                res.ob('R-TTL-MIRRORS-INDEX', ok=ok)
                if not ok:
                    V(res, prop, 'R-TTL-MIRRORS-INDEX', cm, m.key(), 'clear() empties the index but leaves entries in the ttl structure',
                      first_site(effs, top, m), 'stale ttl entries stay at the head of %s and name slots that later inserts recycle, so the '
                      'expired-first test reads another entry\'s deadline' % aux)
        for m in an.entry_points(cm):
            k = ops.kind_of(m)
            for top in method_segments(an, cm, roles, m, res):
                clocks = clock_syms(top)
                if k == 'INSERT':
                    for b in ops.find_bodies(top, m):
                        seg = b.seg
                        check_refile(res, prop, cm, roles, m, b)
                        if seg.cond('PRESENT') is not False or seg.cond('FULL') is not True:
                            continue
                        unb = seg.effs('UNBIND')
                        if not unb:
                            continue
                        he = [c for c in seg.conds if c[0] in ('EXPIRED', 'EXPIRED_STRICT') and c[1][0].kind == 'AUXHEAD' and c[1][0].arg == aux]
                        val = ' '.join(seg.valuation())
                        ok = True
                        why = None
                        if not he or he[0][0] != 'EXPIRED' or he[0][1][1] not in clocks:
                            ok, why = False, 'victim chosen without the inclusive test now >= deadline of the ttl head'
                        else:
                            # the test must read the head of the *unmodified* ttl structure
                            v = unb[0].ent
                            if he[0][2] is True and not (v.kind == 'AUXHEAD' and v.arg == aux):
                                ok, why = False, 'ttl head is expired but the victim is %r' % v
                            if he[0][2] is False and not seg.names_back(v):
                                ok, why = False, 'no entry expired (head live) but the victim is %r, not the LRU entry' % v
                        res.ob('R-PRUNE-TABLE', ok=ok)
                        res.sample(dict(container=cm.name, method=b.where, valuation=val, victim=repr(unb[0].ent)), cap=8)
                        if not ok:
                            V(res, prop, 'R-PRUNE-TABLE', cm, b.where, why.split(' %')[0], unb[0].site, 'full insert path [%s]: %s' % (val, why))
                # nothing but writes / removals touches the ttl structure or stored deadlines
                for seg in top.all_segments():
                    for e in seg.effects:
                        if e.kind in ('AUX_OP', 'AUX_MOVE', 'AUX_ERASE_RANGE') and e.aux == aux and k != 'CLEAR':
                            res.ob('ORD-WITNESS', ok=False)
                            V(res, prop, 'ORD-WITNESS', cm, where_of(m, seg), 'ttl structure manipulated by %s' % getattr(e, 'name', e.kind), e.site,
                              'only keyed insertion and erase keep the multimap\'s head the earliest deadline')
                        if e.kind == 'AUX_DEL' and e.aux == aux:
                            check_ttl_erase(res, prop, cm, roles, m, seg, e)


def check_ttl_erase(res, prop, cm, roles, m, seg, e):
    """every erase from the ttl structure removes exactly one entry: the one the subject slot's stored position denotes"""
    ok = isinstance(e.ent, lift.Ent) and e.ent.kind in ('FOUND', 'BACK', 'AUXHEAD', 'ATPART', 'RANDPOS', 'LV', 'FRONT')
    res.ob('R-TTL-ERASE-PAIRED', ok=ok)
    if not ok:
        V(res, prop, 'R-TTL-ERASE-PAIRED', cm, where_of(m, seg), 'ttl structure erased by something other than the slot\'s stored position', e.site,
          'path [%s]: %s.erase(%s) - erasing by key (or through a foreign iterator) can drop the ttl entries of other slots, which then '
          'never expire / are never seen by the expired-first test' % (' '.join(seg.valuation()), e.aux, show(e.arg) if e.arg is not None else '?'))


# ---------------------------------------------------------------------------------------------- C17

def rule_c17(an, res):
    prop = 'C17'
    for cm, roles in an.classes(TTL_CONTAINERS):
        aux = roles.ttl_struct
        for m in an.entry_points(cm):
            k = ops.kind_of(m)
            tops = method_segments(an, cm, roles, m, res)
            if cm.name in ('ut_map', 'ut_set'):
                from rules_seq import check_purge_first
                for top in tops:
                    if k in ('INSERT', 'ERASE', 'FIND', 'CLEAN'):
                        check_purge_first(res, prop, cm, roles, m, top)
                        check_purge_shape(res, prop, cm, roles, m, top)
                    if k == 'CLEAN':
                        check_purge_tally(res, prop, cm, roles, m, top)
                    if k == 'INSERT':
                        for b in ops.find_bodies(top, m):
                            check_refile(res, prop, cm, roles, m, b)
                continue
            if k == 'INSERT':
                for top in tops:
                    for b in ops.find_bodies(top, m):
                        check_refile(res, prop, cm, roles, m, b)
            for top in tops:
                for seg in top.all_segments():
                    for e in seg.effects:
                        if e.kind == 'AUX_DEL' and e.aux == aux:
                            check_ttl_erase(res, prop, cm, roles, m, seg, e)
            if k != 'CLEAN':
                continue
            for top in tops:
                if ops.nothing_to_do(top):
                    res.ob('R-CLEAN-LOOP', ok=True)
                    continue
                clocks = clock_syms(top)
                # an effect-free first pass that only locates the end of the expired prefix is not the removing loop
                loops = [(lp, segs) for lp, segs in top.loops if any(s.state_effects() or s.loops for s in segs)]
                ok = True
                why = None
                removing = []
                if len(loops) != 1:
                    ok, why = False, 'clean_expired_values has %d loops (expected one loop removing the expired head)' % len(loops)
                else:
                    lp, segs = loops[0]
                    exits = top.loop_exits.get(id(lp), [])
                    for s in segs:
                        okf, _ = lift.feasible(s)
                        if not okf:
                            continue
                        ne = s.cond('NONEMPTY')
                        ex = [c for c in s.conds if c[0] in ('EXPIRED', 'EXPIRED_STRICT') and c[1][0].kind == 'AUXHEAD' and c[1][0].arg == aux]
                        unb = s.effs('UNBIND')
                        if s.status == 'continue':
                            if not (ne is True and ex and ex[0][0] == 'EXPIRED' and ex[0][2] is True and ex[0][1][1] in clocks):
                                ok, why = False, 'an iteration continues without NONEMPTY and the inclusive test now >= deadline(head)'
                            elif len(unb) != 1 or not (unb[0].ent.kind == 'AUXHEAD' and unb[0].ent.arg == aux):
                                ok, why = False, 'iteration does not remove exactly the ttl head (would loop forever or drop a live entry)'
                            else:
                                removing.append(s)
                        else:
                            if unb:
                                ok, why = False, 'removal on a path that leaves the loop'
                            if not ((ex and ex[0][2] is False and ex[0][0] == 'EXPIRED') or (ne is False and not ex)):
                                ok, why = False, 'loop is left although the head is expired (or without testing it)'
                    for s in exits:
                        if not lift.feasible(s)[0]:
                            continue
                        ne = s.cond('NONEMPTY')
                        if ne is None and s.cond('AUX_NONEMPTY') is not None:
                            ne = s.cond('AUX_NONEMPTY')        # the ttl structure is empty exactly when the cache is (RI)
                        ex = [c for c in s.conds if c[0] in ('EXPIRED', 'EXPIRED_STRICT')]
                        fine = (ne is False and not ex) or (ex and ex[0][0] == 'EXPIRED' and ex[0][2] is False)
                        if not fine:
                            ok, why = False, 'loop condition can end the loop while the head is expired (%s)' % ' '.join(s.valuation())
                    if ok and not removing:
                        ok, why = False, 'no iteration removes the expired head'
                res.ob('R-CLEAN-LOOP', ok=ok)
                if not ok:
                    V(res, prop, 'R-CLEAN-LOOP', cm, m.key(), why.split(' (')[0], site_of_seg(top, m), why)
                    continue
                # tally
                lp, segs = loops[0]
                r = top.ret
                okt = False
                how = None
                if isinstance(r, tuple) and r[0] == 'lv':
                    name = ops.tally_var(r)
                    okt = True
                    how = 'counter'
                    init = ops.local_writes(top, name, decl=True)
                    if len(init) != 1 or init[0].val != ('int', 0):
                        okt = False
                    for s in segs:
                        incs = ops.local_writes(s, name)
                        want = 1 if s in removing else 0
                        good = [e for e in incs if ops.is_increment(e, name)]
                        if len(incs) != want or len(good) != want:
                            okt = False
                elif isinstance(r, tuple) and r[0] == 'bin' and r[1] == '-':
                    a, b2 = r[2], r[3]
                    how = 'size difference'

                    def size_of(t):
                        if isinstance(t, tuple) and t[0] == 'q' and t[1] == 'size' and t[2] in (THIS(aux), top.L.index):
                            return t[2], t[4]
                        if is_ld(t) and roles.counter and t[2] == THIS(roles.counter):
                            return t[2], t[1] * 1000
                        return None
                    sa, sb = size_of(a), size_of(b2)
                    # first operand read before the loop (older era), second after it, same structure
                    okt = (sa is not None and sb is not None and sa[0] == sb[0] and (sa[1] or 0) < 0 and (sb[1] or 0) == 0)
                    if okt:
                        # the pre-loop read has to be inside the critical section and after nothing else changed the structure:
                        okt = not [e for e in top.effects if e.kind in ('AUX_ADD', 'AUX_DEL', 'BIND', 'UNBIND')]
                else:
                    # std::distance(ttl.begin(), ttl.upper_bound(now)) taken before the sweep: the number of entries whose deadline is
                    # <= now, which is what the loop (R-CLEAN-LOOP: exactly the expired prefix) removes
                    d = r[2] if isinstance(r, tuple) and r and r[0] == 'cast' and len(r) > 2 else r
                    if isinstance(d, tuple) and len(d) > 2 and d[0] == 'fncall' and d[1] == 'distance' and len(d[2]) == 2:
                        a, b2 = d[2]
                        a = resolve_local(top, a, None) if isinstance(a, tuple) and a[:1] in (('lv',), ('var',)) else a
                        b2 = resolve_local(top, b2, None) if isinstance(b2, tuple) and b2[:1] in (('lv',), ('var',)) else b2
                        clocks = clock_syms(top)
                        okt = (is_begin_of(a, aux) and isinstance(b2, tuple) and len(b2) > 3 and b2[0] == 'q' and b2[1] == 'upper_bound'
                               and b2[2] == THIS(aux) and len(b2[3]) == 1 and b2[3][0] in clocks and len(clocks) == 1)
                        if okt and top.loops and not ((a[4] or 0) < 0 and (b2[4] or 0) < 0):
                            okt = False      # measured after the sweep: begin() has caught up with the bound, the distance is 0
                        how = 'distance(begin, upper_bound(now))'
                res.ob('R-CLEAN-TALLY', ok=okt)
                res.sample(dict(container=cm.name, method=m.key(), returns=show(r) if r is not None else None, tally=how), cap=8)
                if not okt:
                    V(res, prop, 'R-CLEAN-TALLY', cm, m.key(), 'returned count is not the number of removed entries', site_of_seg(top, m),
                      'clean_expired_values returns %s' % (show(r) if r is not None else None))
        if cm.name in ('ut_map', 'ut_set'):
            check_ord_witness_B(an, res, prop, cm, roles)
        else:
            check_ord_witness_A(an, res, prop, cm, roles)


def check_purge_tally(res, prop, cm, roles, m, top):
    pl = ops.purge_loops(top)
    r = top.ret
    ok = False
    if not pl and ops.nothing_to_do(top):
        res.ob('R-CLEAN-TALLY', ok=True)
        return
    if pl and isinstance(r, tuple) and r[0] == 'lv':
        name = ops.tally_var(r)
        lp, segs = top.loops[pl[0]]
        ok = r[2] == lp.id
        init = ops.local_writes(top, name, decl=True)
        ok = ok and len(init) == 1 and init[0].val == ('int', 0)
        for s in segs:
            incs = ops.local_writes(s, name)
            want = 1 if s.effs('UNBIND') else 0
            good = [e for e in incs if ops.is_increment(e, name)]
            if len(incs) != want or len(good) != want:
                ok = False
    if not ok and pl and isinstance(r, tuple) and r and r[0] == 'bin' and r[1] == '-':
        # size of the key map (or of the ttl list) before the purge minus its size after it, nothing else removed or added in between
        def size_of(t):
            if isinstance(t, tuple) and t and t[0] == 'q' and t[1] == 'size' and t[2] in (top.L.index, THIS(roles.ttl_struct)):
                return t[2], t[4]
            return None
        sa, sb = size_of(r[2]), size_of(r[3])
        if sa is not None and sb is not None and sa[0] == sb[0] and (sa[1] or 0) < (sb[1] or 0):
            ok = not [e for e in top.effects if e.kind in ('BIND', 'UNBIND', 'AUX_ADD', 'AUX_DEL')]
    if not ok and pl and isinstance(r, tuple) and r:
        # two-pass purge: every node of [head, B) loses exactly its key (R-PURGE-SHAPE), so distance(head, B) is the number purged
        d = r[2] if r[0] == 'cast' else r
        lp, segs = top.loops[pl[0]]
        sw = [ops.sweep_bound(s) for s in segs if s.status == 'continue']
        if isinstance(d, tuple) and d and d[0] == 'fncall' and d[1] == 'distance' and len(d[2]) == 2 and sw and all(x is not None for x in sw):
            bkey = sw[0][1]
            ok = (is_begin_of(resolve_local(top, d[2][0], None), roles.ttl_struct) and isinstance(d[2][1], tuple)
                  and d[2][1][:3] == ('lv', bkey[0], bkey[1]))
    if not ok and pl and isinstance(r, tuple) and r and r[0] == 'lv':
        # two-pass purge whose first pass counts: the scan loop steps its iterator and the counter once per expired node, the sweep
        # loop removes exactly the nodes of [head, B) (R-PURGE-SHAPE), B being where that scan stopped
        lp, segs = top.loops[pl[0]]
        sw = [ops.sweep_bound(s) for s in segs if s.status == 'continue']
        bounds = ops.scan_boundaries(top)
        scan = next((v for (nm, lid), v in bounds.items() if lid == r[2]), None)
        if scan is not None and sw and all(x is not None and x[1][1] == r[2] for x in sw):
            name = ops.tally_var(r)
            init = ops.local_writes(top, name, decl=True)
            ok = len(init) == 1 and init[0].val == ('int', 0)
            for s2 in scan[1]:
                incs = ops.local_writes(s2, name)
                good = [e for e in incs if ops.is_increment(e, name)]
                want = 1 if s2.status == 'continue' else 0
                if len(incs) != want or len(good) != want:
                    ok = False
    res.ob('R-CLEAN-TALLY', ok=ok)
    if not ok:
        V(res, prop, 'R-CLEAN-TALLY', cm, m.key(), 'returned count is not the number of purged entries', site_of_seg(top, m),
          'clean_expired_values returns %s' % (show(r) if r is not None else None))
