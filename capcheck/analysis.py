"""Shared per-run analysis context: program, roles, path sets (computed once, reused by all rules)."""
import re
import frontend
import model
import symex


class Analysis:
    def __init__(self, repo, ts='yes', K='unsigned long', V='std::string', alt=False, lenient=False):
        self.repo = repo
        self.lenient = lenient
        self.ts = ts
        self.prog = frontend.load_program(repo, ts=ts, K=K, V=V, alt=alt)
        self.roles = {}
        self.evals = {}
        self._paths = {}
        self._classified = set()
        self.touched = set()
        self._ready = False
        self.incomplete = []
        self.renamed = model.canonicalise_names(self.prog)
        self.broken = {}        # container -> G-ANCHOR note: the behavioural model does not fit its representation on this tree
        for name in frontend.CONTAINERS:
            cm = self.prog.classes[name]
            # the roles are built leniently; a container whose anchors do not fit makes exactly the checks that look at it stop
            # (classes()), not the ones that speak of other containers
            self.roles[name] = model.Roles(cm, lenient=True)
            if self.roles[name].anchor_problems and not lenient:
                self.broken[name] = 'G-ANCHOR: ' + '; '.join(self.roles[name].anchor_problems)
            self.roles[name].inert = set()
            self.evals[name] = symex.Evaluator(self.prog, cm)
        for name in frontend.CONTAINERS:
            try:
                self.roles[name].inert = self.compute_inert(self.prog.classes[name], self.roles[name])
                self.roles[name].capacity_copies = self.capacity_copies(self.prog.classes[name])
            except frontend.AnalysisIncomplete:
                raise
            except Exception:
                if name not in self.broken:
                    raise
                self.roles[name].capacity_copies = set()
        self._ready = True

    def capacity_copies(self, cm):
        """const scalar members the constructor initialises with its `capacity` argument (`const size_t m_capacity`): the capacity"""
        out = set()
        ctor = cm.ctor()
        if ctor is None:
            return out
        try:
            paths = self.paths(cm, ctor)
        except Exception:
            return out
        for f in cm.fields:
            if not (f.sugar or '').startswith('const ') and not (f.type or '').startswith('const '):
                # not declared const: the same if it is an integer that nothing but the constructor's initialiser ever writes
                if (f.type or '').replace('std::', '') not in ('size_t', 'unsigned long', 'unsigned long long', 'uint64_t', 'unsigned int') \
                        or self.written_after_construction(cm, f.name):
                    continue
            ok = bool(paths)
            for p in paths:
                v = next((e[2] for e in p.trace if e[0] == 'init' and e[1] == ('fld', ('this',), f.name)), None)
                if isinstance(v, tuple) and v and v[0] == 'ctor' and len(v) > 2 and len(v[2]) == 1:
                    v = v[2][0]
                if v != ('p', 'capacity'):
                    ok = False
            if ok:
                out.add(f.name)
        return out

    def written_after_construction(self, cm, name):
        """does any path of any public operation store into data member `name`?  (True also when that cannot be established)"""
        loc = ('fld', ('this',), name)
        try:
            for m in cm.methods:
                if m.access != 'public' or m.is_ctor or m.body is None or m.name.startswith('~'):
                    continue
                if m.name.startswith('operator'):
                    return True
                for p in self.paths(cm, m):
                    for e in p.events(None, deep=True):
                        if e[0] in ('wr', 'atomic', 'swap', 'unknown') and (e[0] == 'unknown' or loc in e[1:3]):
                            return True
                        if e[0] == 'call' and e[1] == loc:
                            return True
        except Exception:
            return True
        return False

    def compute_inert(self, cm, roles):
        """data members outside the container model whose value never reaches a decision, a result, another member or an
        output: bookkeeping (statistics counters).  Writes to them are not container state for the behavioural rules;
        the lock rules still see every access."""
        import lift
        import ops
        r = roles
        known = set(filter(None, [r.slots, r.index, r.order, getattr(r, 'perm', None), r.counter, r.part, 'm_lock']))
        known |= set(r.aux_kind) | set(getattr(r, 'config', None) or []) | set(getattr(r, 'rng', None) or [])
        cands = set(f.name for f in cm.fields if f.name not in known)
        rknown = set(r.backptrs) | set(filter(None, [r.value, getattr(r, 'deadline', None), getattr(r, 'stamp', None)]))
        rcands = set(f.name for rec in cm.records.values() for f in rec.fields if f.name not in rknown)
        if not cands and not rcands:
            return set()

        def mentions(t, out=None):
            out = set() if out is None else out
            if isinstance(t, tuple):
                if len(t) == 3 and t[0] == 'fld' and t[1] == ('this',) and t[2] in cands:
                    out.add(t[2])
                elif len(t) == 3 and t[0] == 'fld' and t[1] != ('this',) and t[2] in rcands:
                    out.add('.' + t[2])
                for x in t:
                    if isinstance(x, tuple):
                        mentions(x, out)
            return out

        def own(loc):
            if isinstance(loc, tuple) and len(loc) == 3 and loc[0] == 'fld' and loc[1] != ('this',) and loc[2] in rcands:
                return '.' + loc[2]
            rt = symex.root_of(loc)
            return rt[1] if rt[0] == 'field' and rt[1] in cands else None

        bad = set()
        for m in self.entry_points(cm):
            accessor = m.name not in ops.KIND
            for p in self.paths(cm, m):
                for e, _ in flat_events(p):
                    k = e[0]
                    if k in ('wr', 'atomic', 'call'):
                        o = own(e[1])
                        used = set()
                        for x in e[2:5] if k != 'wr' else e[2:3]:
                            if isinstance(x, tuple):
                                used |= mentions(x)
                        if o is None:
                            used |= mentions(e[1])
                        elif o.startswith('.'):
                            used |= mentions(e[1][1])
                        bad |= used - ({o} if o else set())
                        if k == 'atomic' and o and e[6] == 'R' and not accessor:
                            bad.add(o)          # a value loaded from the atomic: where it flows is not tracked
                    elif k in ('cond', 'use', 'rng', 'swap', 'lwr'):
                        if k == 'lwr':
                            continue
                        for x in e[1:]:
                            if isinstance(x, tuple):
                                bad |= mentions(x)
                    elif k == 'ret':
                        if not accessor and isinstance(e[1], tuple):
                            bad |= mentions(e[1])
                if p.ret is not None and not accessor and isinstance(p.ret, tuple):
                    bad |= mentions(p.ret)
        return (cands | set('.' + x for x in rcands)) - bad

    def relevant(self, msg):
        """does an incompleteness note concern a container this run's rules looked at?  (a construct without semantics in one
        container says nothing about a property that only speaks of another)"""
        m = re.search(r'reached from (\w+)::', msg)
        if m is None or not self.touched:
            return True
        return m.group(1) in self.touched

    def classes(self, names=None):
        self.touched |= set(names or frontend.CONTAINERS)
        bad = [self.broken[n] for n in (names or frontend.CONTAINERS) if n in self.broken]
        if bad and not self.lenient:
            raise frontend.AnalysisIncomplete('; '.join(bad))
        for name in (names or frontend.CONTAINERS):
            yield self.prog.classes[name], self.roles[name]

    def paths(self, cm, m):
        k = (cm.name, m.id)
        if k not in self._paths:
            ev = self.evals[cm.name]
            before = len(ev.ctx.unknowns)
            ps = ev.run(m)
            self._paths[k] = ps
            for what, s in ev.ctx.unknowns[before:]:
                self.incomplete.append('G-UNKNOWN %s in %s reached from %s::%s' % (what, symex.show_site(s), cm.name, m.key()))
        return self._paths[k]

    def entry_points(self, cm, ctor=False):
        import ops
        if self._ready and cm.name not in self._classified and cm.name in self.roles:
            self._classified.add(cm.name)
            for m in cm.methods:
                if m.access == 'public' and not m.is_ctor and m.body is not None and m.name not in ops.KIND \
                        and not m.name.startswith('operator') and not m.name.startswith('~'):
                    try:
                        m.eff_kind = ops.classify_new_method(self, cm, self.roles[cm.name], m)
                    except frontend.AnalysisIncomplete:
                        raise
        seen = set()
        for m in cm.methods:
            if m.access != 'public':
                continue
            if m.is_ctor and not ctor:
                continue
            sig = (m.name, m.type)
            if sig in seen:
                continue
            seen.add(sig)
            yield m

    def unknowns_for(self, cm, m):
        self.paths(cm, m)
        return [u for u in self.incomplete if '%s::%s' % (cm.name, m.key()) in u]


def flat_events(path, in_loop=()):
    """events of a path in order, descending into loop iterations; yields (event, loop_stack)"""
    for e in path.trace:
        yield e, in_loop
        if e[0] == 'loop':
            for it in e[1].iters:
                yield from flat_events(it, in_loop + (e[1],))
            for cp in e[1].cond_paths:
                yield from flat_events(cp, in_loop + (e[1],))
