"""Shared per-run analysis context: program, roles, path sets (computed once, reused by all rules)."""
import frontend
import model
import symex


class Analysis:
    def __init__(self, repo, ts='yes', K='unsigned long', V='std::string', alt=False):
        self.repo = repo
        self.ts = ts
        self.prog = frontend.load_program(repo, ts=ts, K=K, V=V, alt=alt)
        self.roles = {}
        self.evals = {}
        self._paths = {}
        self.incomplete = []
        for name in frontend.CONTAINERS:
            cm = self.prog.classes[name]
            self.roles[name] = model.Roles(cm)
            self.evals[name] = symex.Evaluator(self.prog, cm)

    def classes(self, names=None):
        for name in (names or frontend.CONTAINERS):
            yield self.prog.classes[name], self.roles[name]

    def paths(self, cm, m):
        k = (cm.name, m.id)
        if k not in self._paths:
            ev = self.evals[cm.name]
            before = len(ev.ctx.unknowns)
            ps = ev.run(m)
            self._paths[k] = ps
            for what, s in ev.ctx.unknowns[before:]:
                self.incomplete.append('G-UNKNOWN %s in %s reached from %s::%s' % (what, symex.show_site(s), cm.name, m.key()))
        return self._paths[k]

    def entry_points(self, cm, ctor=False):
        seen = set()
        for m in cm.methods:
            if m.access != 'public':
                continue
            if m.is_ctor and not ctor:
                continue
            sig = (m.name, m.type)
            if sig in seen:
                continue
            seen.add(sig)
            yield m

    def unknowns_for(self, cm, m):
        self.paths(cm, m)
        return [u for u in self.incomplete if '%s::%s' % (cm.name, m.key()) in u]


def flat_events(path, in_loop=()):
    """events of a path in order, descending into loop iterations; yields (event, loop_stack)"""
    for e in path.trace:
        yield e, in_loop
        if e[0] == 'loop':
            for it in e[1].iters:
                yield from flat_events(it, in_loop + (e[1],))
            for cp in e[1].cond_paths:
                yield from flat_events(cp, in_loop + (e[1],))
