"""LOCK engine: critical regions and locksets (DESIGN.md 3.9, 6.C06, 6.C07).

C06 (linearizability, atomic ranges) is decided by the reduction: every public operation does
all its accesses to mutable container state inside ONE critical section of the container's
mutex and returns values only.  C07 (data-race freedom) is the lockset check: no pair of
conflicting accesses with an unlocked side.
"""
import re

from analysis import flat_events
from report import Violation
from stdmodel import typeclass, lookup
from symex import root_of, show, show_site

GUARDS = ('std::lock_guard<', 'std::unique_lock<', 'std::scoped_lock<')


class Access:
    __slots__ = ('field', 'part', 'rw', 'locked', 'site', 'method', 'what', 'in_loop')

    def __init__(self, field, part, rw, locked, site, method, what, in_loop):
        self.field, self.part, self.rw, self.locked = field, part, rw, locked
        self.site, self.method, self.what, self.in_loop = site, method, what, in_loop


def conflicts(a, b):
    """[res.on.data.races]/[container.requirements.dataraces]: structure writes conflict with
    everything on that container; content writes conflict with content accesses."""
    if a.field != b.field:
        return False
    if a.rw == 'R' and b.rw == 'R':
        return False
    if a.part == 'A' and b.part == 'A':
        return False          # operations on a std::atomic never race with each other
    if 'A' in (a.part, b.part) and 'C' in (a.part, b.part):
        return False          # an atomic object is only ever accessed through atomic operations
    if a.part == 'S' and a.rw == 'W' or b.part == 'S' and b.rw == 'W':
        return True
    return a.part == b.part


def field_of(loc):
    r = root_of(loc)
    if r[0] == 'field':
        return r[1]
    if r[0] in ('heap', 'res'):
        return '<heap>'
    return None


def collect(an, cm, roles, m):
    """walk all paths of m; returns (accesses, region facts)"""
    accs = []
    facts = dict(max_regions=0, lock_in_loop=[], relock=[], temp=[], manual=[], foreign=[], paths=0,
                 unlocked_after=[], fences=[])
    lockloc = roles.lock

    def walk(path, held, regions, in_loop):
        for e in path.trace:
            k = e[0]
            if k == 'lock':
                if e[1] != lockloc:
                    facts['foreign'].append(e)
                    continue
                if e[3] == 'temporary':
                    facts['temp'].append(e)
                    continue
                if e[3] == 'manual':
                    facts['manual'].append(e)
                held += 1
                regions += 1
                if in_loop:
                    facts['lock_in_loop'].append(e)
            elif k == 'unlock':
                if e[1] != lockloc or (len(e) > 3 and e[3] == 'temporary'):
                    continue
                held = max(0, held - 1)
            elif k == 'relock':
                facts['relock'].append(e)
            elif k == 'fence':
                facts['fences'].append(e)
            elif k == 'rd':
                f = field_of(e[1])
                if f and f != 'm_lock':
                    accs.append(Access(f, 'C', 'R', held > 0, e[2], m, show(e[1]), in_loop))
            elif k == 'wr':
                f = field_of(e[1])
                if f and f != 'm_lock':
                    # assigning the container object itself replaces its structure (begin/end/size), not an element
                    whole = (e[1][0] == 'fld' and e[1][1] == ('this',) and f in cm.field_by_name
                             and typeclass(cm.field_by_name[f].type) in ('vector', 'list', 'umap', 'multimap', 'map', 'set', 'uset'))
                    accs.append(Access(f, 'S' if whole else 'C', 'W', held > 0, e[3], m, show(e[1]), in_loop))
            elif k == 'q':
                t = e[1]
                f = field_of(t[2])
                if f and f != 'm_lock':
                    accs.append(Access(f, 'S', 'R', held > 0, e[2], m, '%s.%s()' % (show(t[2]), t[1]), in_loop))
            elif k == 'call':
                f = field_of(e[1])
                if f and f != 'm_lock':
                    accs.append(Access(f, 'S', 'W', held > 0, e[5], m, '%s.%s()' % (show(e[1]), e[2]), in_loop))
            elif k == 'atomic':
                f = field_of(e[1])
                if f and f != 'm_lock':
                    accs.append(Access(f, 'A', e[6], held > 0, e[5], m, '%s.%s()' % (show(e[1]), e[2]), in_loop))
            elif k in ('iota',):
                f = field_of(e[1])
                if f:
                    accs.append(Access(f, 'C', 'W', held > 0, e[4], m, 'iota', in_loop))
            elif k == 'loop':
                for it in e[1].iters + e[1].cond_paths:
                    walk(it, held, 0, in_loop + 1)
        facts['max_regions'] = max(facts['max_regions'], regions)
        return held

    for p in an.paths(cm, m):
        facts['paths'] += 1
        walk(p, 0, 0, 0)
    return accs, facts


def ctor_written(an, cm):
    """fields written by the constructor only are immutable afterwards (if no other writer)"""
    return set()


def analyse(an, res_c06, res_c07):
    for cm, roles in an.classes():
        methods = list(an.entry_points(cm))
        all_acc = {}
        all_facts = {}
        for m in methods:
            a, f = collect(an, cm, roles, m)
            all_acc[m.key()] = a
            all_facts[m.key()] = f
        flat = [a for v in all_acc.values() for a in v]
        # ---- L4: the lock wrapper and the guard types
        check_wrapper(an, cm, roles, res_c06, res_c07)
        for m in methods:
            accs, facts = all_acc[m.key()], all_facts[m.key()]
            mname = m.key()
            # ---------------- C07: per access outside the region, any conflicting access anywhere
            seen = set()
            for a in accs:
                other = next((b for b in flat if conflicts(a, b) and not (a.locked and b.locked)
                              and (not a.locked)), None)
                if res_c07 is not None:
                    res_c07.ob('LOCKSET', ok=(a.locked or other is None))
                if not a.locked and other is not None:
                    d = '%s %s of %s outside the critical section' % ('read' if a.rw == 'R' else 'write', 'structure' if a.part == 'S' else 'content', a.field)
                    if d in seen:
                        continue
                    seen.add(d)
                    msg = ('%s (%s) is not under m_lock but conflicts with %s %s in %s::%s at %s'
                           % (a.what, d, 'write' if other.rw == 'W' else 'read', other.what, cm.name,
                              other.method.key(), show_site(other.site)))
                    if res_c07 is not None:
                        res_c07.violate(Violation('C07', 'LOCKSET', cm.name, mname, d, a.site, msg,
                                                  dict(access=a.what, other=other.what, other_site=show_site(other.site))))
                    if res_c06 is not None:
                        res_c06.violate(Violation('C06', 'L1-ONE-REGION', cm.name, mname, d, a.site,
                                                  '%s: mutable container state is touched outside the critical section, so the '
                                                  'operation is not a single atomic step' % a.what))
            if res_c06 is not None:
                # an atomic that takes part in what operations return is state like any other: outside the region it splits the step
                for a in accs:
                    if a.part == 'A' and not a.locked and a.field not in roles.inert:
                        live_state = a.field in (getattr(roles, 'counter', None), getattr(roles, 'part', None))
                        # (the element counter itself made atomic is updated step by step inside the operations: reading it lock-free
                        # shows the middle of a range operation - that stays a violation)
                        if not live_state and m.name in ('size', 'empty', 'capacity') \
                                and all(x.part == 'A' and x.rw == 'R' and x.field == a.field for x in accs) \
                                and len(set(x.site for x in accs)) == 1:
                            # an observer that consists of ONE atomic load is a single step; whether what it loads is the state at a
                            # linearization point depends on how every mutator publishes it - not modelled (exit 2, no verdict)
                            note = ('G-UNKNOWN %s() is one lock-free load of the atomic %s: the publication discipline of that mirror is '
                                    'not modelled in %s reached from %s::%s' % (m.name, a.field, show_site(a.site), cm.name, mname))
                            if note not in res_c06.incomplete:
                                res_c06.incomplete.append(note)
                            continue
                        res_c06.ob('L1-ONE-REGION', ok=False)
                        res_c06.violate(Violation('C06', 'L1-ONE-REGION', cm.name, mname, 'atomic %s used outside the critical section' % a.field, a.site,
                                                  '%s: results depend on this atomic, so the operation is not a single atomic step' % a.what))
                        break
            if res_c06 is not None:
                # L1: one region per path, never re-taken, not inside a loop
                ok = facts['max_regions'] <= 1 and not facts['lock_in_loop']
                res_c06.ob('L1-ONE-REGION', ok=ok)
                for e in facts['lock_in_loop'][:1]:
                    res_c06.violate(Violation('C06', 'L1-ONE-REGION', cm.name, mname, 'lock acquired inside a loop', e[2],
                                              'the lock is taken per iteration: the range/loop is not one atomic step'))
                if facts['max_regions'] > 1 and not facts['lock_in_loop']:
                    res_c06.violate(Violation('C06', 'L1-ONE-REGION', cm.name, mname, 'more than one critical section on a path',
                                              m.loc and (m.loc[0], m.loc[1], mname),
                                              'the method releases and re-acquires the lock (check-then-act across regions)'))
                # touches mutable state but has no region at all is covered by the access rule above
                res_c06.ob('L5-NO-RELOCK', ok=not facts['relock'])
                for e in facts['relock'][:1]:
                    res_c06.violate(Violation('C06', 'L5-NO-RELOCK', cm.name, mname, 're-acquires m_lock while holding it', e[2],
                                              'std::mutex is not recursive: self-deadlock / undefined behaviour'))
                res_c06.ob('L4-GUARD', ok=not facts['temp'] and not facts['foreign'])
                for e in facts['temp'][:1]:
                    res_c06.violate(Violation('C06', 'L4-GUARD', cm.name, mname, 'temporary lock guard', e[2],
                                              'the guard is an unnamed temporary: it is released at the end of the full expression'))
                for e in facts['foreign'][:1]:
                    res_c06.violate(Violation('C06', 'L4-GUARD', cm.name, mname, 'guard on a different mutex', e[2],
                                              'the guard does not lock this->m_lock (%s)' % show(e[1])))
                # L3: values only
                rt = m.ret_type
                bad = rt.rstrip().endswith('&') or rt.rstrip().endswith('*') or 'iterator' in rt
                if bad and 'iterator' in rt and not rt.rstrip().endswith('&') and not rt.rstrip().endswith('*'):
                    # handing the caller's own output iterator back (std::copy style): the type of a by-value parameter, and not an
                    # iterator type of one of the container's members
                    own = any((p.get('type', {}).get('qualType', '') or '').strip() == rt.strip() for p in m.params)
                    member_its = ('_List_iterator', '_List_const_iterator', '_Rb_tree', '_Node_iterator', '__normal_iterator', 'list<', 'map<')
                    if own and not any(x in rt for x in member_its):
                        bad = False
                res_c06.ob('L3-NO-ESCAPE', ok=not bad)
                if bad:
                    res_c06.violate(Violation('C06', 'L3-NO-ESCAPE', cm.name, mname, 'returns a reference/pointer/iterator',
                                              m.loc and (m.loc[0], m.loc[1], mname),
                                              'return type %s hands out access to storage that outlives the critical section' % rt))
                res_c06.count('methods')
                res_c06.count('paths', facts['paths'])
                res_c06.sample(dict(container=cm.name, method=mname, paths=facts['paths'], regions=facts['max_regions'],
                                    accesses=len(accs), unlocked=[a.what for a in accs if not a.locked][:4]), cap=14)
            if res_c07 is not None:
                res_c07.count('methods')
                res_c07.count('accesses', len(accs))
        # ---- C07 pairwise framing (evidence): number of method pairs examined
        if res_c07 is not None:
            n = len(methods)
            res_c07.count('method_pairs', n * (n + 1) // 2)
            for i, m1 in enumerate(methods):
                for m2 in methods[i:]:
                    bad = False
                    for a in all_acc[m1.key()]:
                        if a.locked:
                            continue
                        if any(conflicts(a, b) for b in all_acc[m2.key()]):
                            bad = True
                            break
                    if not bad:
                        for b in all_acc[m2.key()]:
                            if b.locked:
                                continue
                            if any(conflicts(b, a) for a in all_acc[m1.key()]):
                                bad = True
                                break
                    res_c07.ob('PAIR-RACE-FREE', ok=not bad)
            res_c07.sample(dict(container=cm.name, methods=n, pairs=n * (n + 1) // 2,
                                unlocked_accesses=[(a.method.key(), a.what) for a in flat if not a.locked][:6]), cap=12)


def check_wrapper(an, cm, roles, res_c06, res_c07):
    """L4: mutex<yes>::lock/unlock forward to std::mutex; mutex<no> is empty; guards are RAII types"""
    f = cm.field_by_name['m_lock']
    for res in (res_c06, res_c07):
        if res is None:
            continue
        want = '(cappuccino::thread_safe)1' if an.ts == 'yes' else '(cappuccino::thread_safe)0'
        ok_t = want in f.type or ('thread_safe::' + an.ts) in f.type
        res.ob('L4-WRAPPER', ok=ok_t)
        if not ok_t:
            res.violate(Violation(res.prop, 'L4-WRAPPER', cm.name, '(class)', 'm_lock is not mutex<thread_safe_type>', f.loc,
                                  'm_lock has type %s' % f.type))
    import re
    spec = None
    foreign = None
    STD_MUTEX = r'std::(recursive_|timed_|recursive_timed_|shared_|shared_timed_)?mutex\b'
    for s in an.prog.mutex_specs:
        args = [c for c in s.get('inner', []) if c.get('kind') == 'TemplateArgument']
        vals = [a.get('value') for a in args]
        if str(vals[0] if vals else None) == ('1' if an.ts == 'yes' else '0'):
            tys = [a.get('type', {}).get('qualType') for a in args]
            if len(tys) > 1 and tys[1] and re.search(STD_MUTEX, tys[1]):
                spec = s
            elif len(tys) > 1 and tys[1]:
                foreign = (s, tys[1])
    if spec is None and foreign is not None and an.ts == 'yes' and cm.name == 'lru_cache':
        # the containers' lock is instantiated over something that is not a standard mutex: nothing excludes anything
        for res in (res_c06, res_c07):
            if res is not None:
                res.ob('L4-WRAPPER', ok=False)
                res.violate(Violation(res.prop, 'L4-WRAPPER', 'mutex', '(class)', 'underlying lock type is not a standard mutex',
                                      foreign[0].get('_loc') or f.loc, 'mutex<thread_safe::yes> wraps %s' % foreign[1]))
        return
    for res in (res_c06, res_c07):
        if res is None or cm.name != 'lru_cache':
            continue
        if spec is None:
            res.incomplete.append('G-ANCHOR: mutex<thread_safe::%s, std::mutex> specialisation not found in the AST' % an.ts)
            continue
        from frontend import _walk
        for mname in ('lock', 'unlock'):
            md = next((c for c in spec.get('inner', []) if c.get('kind') == 'CXXMethodDecl' and c.get('name') == mname), None)
            calls = []
            if md is not None:
                for n in _walk(md):
                    if n.get('kind') == 'CXXMemberCallExpr':
                        cal = n['inner'][0]
                        while cal.get('kind') in ('ImplicitCastExpr', 'ParenExpr'):
                            cal = cal['inner'][0]
                        base = cal.get('inner', [{}])[0]
                        bt = (base.get('type', {}).get('desugaredQualType') or base.get('type', {}).get('qualType', ''))
                        calls.append((cal.get('name'), bt))
            if an.ts == 'yes':
                ok = any(n == mname and re.search(STD_MUTEX, t) for n, t in calls)
                msg = 'mutex<yes>::%s does not call std::mutex::%s' % (mname, mname)
            else:
                ok = not calls
                msg = 'mutex<no>::%s is not a no-op' % mname
            res.ob('L4-WRAPPER', ok=ok)
            if not ok:
                res.violate(Violation(res.prop, 'L4-WRAPPER', 'mutex', mname, 'lock wrapper does not forward to std::mutex',
                                      md.get('_loc') if md else None, msg))
