"""R-WIDTH: sizes, slot indices, use counts, tallies and time representations keep the 64-bit width the pinned tree gives them.

The properties quantify over every capacity, every number of uses and every TTL representable on the clock.  A counter, an index
or a deadline kept in a narrower integer wraps for large arguments only - nothing a test with ten entries sees.  This is a purely
declarative rule over the instantiated AST: which types the library's own state, tallies and time arithmetic are declared with."""
import re
import frontend
from report import Violation

NARROW = re.compile(r'\b(unsigned short|short|unsigned int|int|unsigned char|signed char|char|uint8_t|uint16_t|uint32_t|int8_t|int16_t|'
                    r'int32_t|__int8_t|__int16_t|__int32_t|__uint8_t|__uint16_t|__uint32_t)\b')
WIDE_RET = re.compile(r'\b(unsigned long|long|size_t|uint64_t|unsigned long long)\b')
NARROW_DURATION = re.compile(r'duration<\s*(unsigned short|short|unsigned int|int|unsigned char|signed char|char)\b')


def dq(n):
    t = n.get('type', {}) or {}
    return t.get('desugaredQualType') or t.get('qualType') or ''


def strip_user_types(t, K, V):
    """the key / value types of the instantiation are the user's business (std::string contains `char`)"""
    for u in (K, V):
        if u:
            t = t.replace(u, '')
    t = re.sub(r'std::(__cxx11::)?basic_string<char(, std::char_traits<char>, std::allocator<char>)?\s*>', '', t)
    t = re.sub(r'std::(char_traits|allocator)<char>', '', t)
    return t


def scan(an, K='unsigned long', V='std::string'):
    """-> list of (category, container, where, loc, text); category in field / duration / tally"""
    if getattr(an, '_width_scan', None) is not None:
        return an._width_scan
    out = []
    for name in frontend.CONTAINERS:
        cm = an.prog.classes.get(name)
        if cm is None:
            continue
        fields = [(f, '%s::%s' % (name, f.name)) for f in cm.fields]
        for rn, rec in cm.records.items():
            fields += [(f, '%s::%s::%s' % (name, rn, f.name)) for f in rec.fields]
        for f, where in fields:
            t = strip_user_types(dq(f.node), K, V)
            if 'value_type' in where:
                continue
            if NARROW_DURATION.search(t):
                out.append(('duration', name, where, f.node.get('_loc'), 'member %s keeps time in %s' % (f.name, dq(f.node)[:90])))
            elif NARROW.search(t) and 'std::mersenne_twister' not in t and 'random_device' not in t and 'atomic<bool>' not in t \
                    and not re.search(r'\bfloat\b|\bdouble\b', t) and 'std::function' not in t and 'mutex' not in t:
                out.append(('field', name, where, f.node.get('_loc'), 'member %s is declared %s' % (f.name, dq(f.node)[:90])))
        for m in cm.methods:
            rt = strip_user_types(getattr(m, 'ret_type', '') or '', K, V)
            wide_ret = bool(WIDE_RET.search(rt)) and 'std::' not in rt
            for n in frontend._walk(m.node):
                k = n.get('kind')
                if k in ('VarDecl', 'CXXStaticCastExpr', 'CStyleCastExpr', 'CXXFunctionalCastExpr', 'CXXTemporaryObjectExpr', 'CXXConstructExpr'):
                    t = strip_user_types(dq(n), K, V)
                    if NARROW_DURATION.search(t):
                        out.append(('duration', name, m.key(), n.get('_loc') or m.loc,
                                    'time arithmetic in a duration with a narrow representation: %s' % dq(n)[:90]))
                if k in ('CXXStaticCastExpr', 'CStyleCastExpr', 'CXXFunctionalCastExpr'):
                    t = strip_user_types(dq(n), K, V).replace('const', '').strip()
                    sub = [c for c in n.get('inner', []) if isinstance(c, dict) and c.get('kind')]
                    st = strip_user_types(dq(sub[0]), K, V) if sub else ''
                    if (NARROW.fullmatch(t) or re.fullmatch(r'(std::)?u?int(8|16|32)_t', t)) and 'bool' not in st and t not in ('char',):
                        # an index / count / seed forced into a narrow integer (`std::iota(first, last, std::uint16_t{0})`)
                        out.append(('field', name, m.key(), n.get('_loc') or m.loc, 'explicit conversion to %s' % dq(n)))
                if k == 'VarDecl' and wide_ret:
                    t = strip_user_types(dq(n), K, V).replace('const', '').strip()
                    if NARROW.fullmatch(t) or (NARROW.search(t) and re.fullmatch(r'(std::)?u?int(8|16|32)_t', t)):
                        out.append(('tally', name, m.key(), n.get('_loc') or m.loc,
                                    'local %s of type %s in a function that returns a %s count' % (n.get('name'), dq(n), rt.strip())))
    seen = set()
    uniq = []
    for x in out:
        key = (x[0], x[1], x[2], x[4])
        if key not in seen:
            seen.add(key)
            uniq.append(x)
    an._width_scan = uniq
    return uniq


def check(an, res, prop, categories):
    hits = [x for x in scan(an) if x[0] in categories]
    n_decls = sum(len(cm.fields) + sum(len(r.fields) for r in cm.records.values()) for cm in an.prog.classes.values())
    res.ob('R-WIDTH', ok=True, n=max(0, n_decls - len(hits)))
    if hits:
        res.ob('R-WIDTH', ok=False, n=len(hits))
    for cat, cname, where, loc, text in hits[:8]:
        cm = an.prog.classes[cname]
        what = {'field': 'container state is kept in an integer narrower than size_t',
                'duration': 'time is kept in a duration with a representation narrower than the clock\'s',
                'tally': 'a returned count is accumulated in an integer narrower than the return type'}[cat]
        res.violate(Violation(prop, 'R-WIDTH', cname, where, what, loc and (loc[0], loc[1], where),
                              '%s: it wraps / truncates for arguments the pinned tree handles (>= 2^16 or 2^32 entries or uses, ttls of weeks) - '
                              'the properties hold for every capacity, use count and ttl' % text))
