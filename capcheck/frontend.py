"""capcheck front end: instantiation driver -> clang JSON AST -> resolved class models.

Nothing from /repo is executed; clang is used as a parser/type checker only
(-fsyntax-only).  The dump is cached per content hash of /repo/inc and the
driver, so every run analyses the current working tree.
"""
import hashlib
import json
import os
import pickle
import re
import subprocess
import sys
import tempfile
import time

HERE = os.path.dirname(os.path.abspath(__file__))
VERIF = os.path.dirname(HERE)
CACHE = os.environ.get('CAPCHECK_CACHE', os.path.join(VERIF, '.cache'))
TOOL_VERSION = '13'

CONTAINERS = ['lru_cache', 'mru_cache', 'rr_cache', 'fifo_cache', 'lfu_cache', 'lfuda_cache',
              'tlru_cache', 'utlru_cache', 'ut_map', 'ut_set']


class AnalysisIncomplete(Exception):
    """Raised when the analysis cannot be completed (exit 2: neither pass nor violation)."""


def inc_hash(repo):
    h = hashlib.sha256()
    root = os.path.join(repo, 'inc')
    for d, _, fs in sorted(os.walk(root)):
        for f in sorted(fs):
            p = os.path.join(d, f)
            h.update(os.path.relpath(p, root).encode())
            with open(p, 'rb') as fh:
                h.update(fh.read())
    return h.hexdigest()


def gen_driver(K, V, ts, alt, extra=()):
    s = open(os.path.join(HERE, 'driver.cpp.in')).read()
    s = (s.replace('@K@', K).replace('@V@', V).replace('@TS@', ts)
         .replace('@ALT_RANGES@', '1' if alt else '0'))
    if extra:
        s += '\n// calls that instantiate public member templates outside the documented API (found by trial compilation)\n'
        s += 'namespace capcheck_driver\n{\n'
        for i, (cls, call) in enumerate(extra):
            targs = 'K, thread_safe::%s' % ts if cls == 'ut_set' else 'K, V, thread_safe::%s' % ts
            s += EXTRA_FN % dict(i=i, cls=cls, targs=targs, call=call)
        s += '} // namespace capcheck_driver\n'
    return s


EXTRA_FN = '''void drive_extra_%(i)d(cappuccino::%(cls)s<%(targs)s>& c)
{
    K k{};
    V v{};
    std::vector<K> ks;
    std::vector<std::pair<K, V>> kv;
    std::vector<std::pair<K, std::optional<V>>> fill;
    std::vector<std::tuple<ms, K, V>> tkv;
    (void)k; (void)v;
    (void)c.%(call)s;
}
'''


def _template_candidates(tnode):
    """argument lists worth trying for a member template nothing instantiates, from the shape of its parameters"""
    tparams = [c.get('name') for c in tnode.get('inner', []) if c.get('kind') == 'TemplateTypeParmDecl' and c.get('name')]
    meth = next((c for c in tnode.get('inner', []) if c.get('kind') == 'CXXMethodDecl'), None)
    if meth is None:
        return []
    params = [c for c in meth.get('inner', []) if c.get('kind') == 'ParmVarDecl']
    RANGES = ['ks', 'kv', 'fill', 'tkv']
    per = []
    i = 0
    while i < len(params):
        p = params[i]
        t = p.get('type', {}).get('qualType', '') or ''
        name = (p.get('name') or '').lower()
        dep = [tp for tp in tparams if re.search(r'\b%s\b' % re.escape(tp), t)]
        if dep:
            nxt = params[i + 1] if i + 1 < len(params) else None
            if nxt is not None and (nxt.get('type', {}).get('qualType', '') or '') == t and '...' not in t:
                per.append([('%s.begin()' % r, '%s.end()' % r) for r in RANGES])        # an iterator pair
                i += 2
                continue
            if '...' in t:
                per.append([('v',), (), ('k',), ('k', 'v')])
            elif 'out' in name or 'dest' in name or 'out' in dep[0].lower():
                per.append([('std::back_inserter(fill)',), ('fill.begin()',), ('std::back_inserter(kv)',), ('std::back_inserter(ks)',)])
            elif 'range' in name or 'range' in dep[0].lower() or name.endswith('s'):
                per.append([(r,) for r in RANGES])
            else:
                # (no callable is proposed: what a caller-supplied predicate / visitor does is not the library's behaviour, a template
                # that needs one stays recorded as not analysed)
                per.append([(r,) for r in RANGES] + [('k',), ('v',)])
        elif 'cappuccino::allow' in t:
            per.append([('cappuccino::allow::insert_or_update',)])
        elif 'cappuccino::peek' in t:
            per.append([('cappuccino::peek::no',)])
        elif 'chrono' in t or 'duration' in t:
            per.append([('ms{1}',)])
        elif 'key' in name:
            per.append([('k',)])
        elif 'value' in name:
            per.append([('v',)])
        elif t.replace('const', '').strip() in ('bool',):
            per.append([('false',)])
        elif re.search(r'\b(size_t|int|long|unsigned)\b', t) and 'std::' not in t:
            per.append([('k',), ('0',)])
        else:
            per.append([('k',), ('v',), ('{}',)])
        i += 1
    out = [()]
    for alts in per:
        out = [a + b for a in out for b in alts][:24]
    return ['%s(%s)' % (tnode.get('name'), ', '.join(a)) for a in out[:12]]


def auto_instantiations(repo, prog, ts, K, V, alt):
    """[(class, call)] that compile and give every public member template outside the documented API an instantiated body"""
    todo = []
    for name in CONTAINERS:
        cm = prog.classes.get(name)
        if cm is None:
            continue
        for (t, access, loc) in cm.uninstantiated_templates:
            if access == 'public':
                # (also a further overload of a documented range operation that the fixed driver does not call)
                tnode = next((c for c in cm.node.get('inner', []) if c.get('kind') == 'FunctionTemplateDecl' and c.get('name') == t
                              and c.get('_loc') == loc), None)
                if tnode is not None:
                    todo.append((name, tnode))
    if not todo:
        return []
    base = gen_driver(K, V, ts, alt)
    key = hashlib.sha256((inc_hash(repo) + base + TOOL_VERSION + 'auto-inst').encode()).hexdigest()[:24]
    cpath = os.path.join(CACHE, 'inst-%s.json' % key)
    if os.path.exists(cpath):
        try:
            return [tuple(x) for x in json.load(open(cpath))]
        except Exception:
            pass
    found = []
    with tempfile.TemporaryDirectory(prefix='capcheck-') as td:
        for cls, tnode in todo:
            for call in _template_candidates(tnode):
                src = os.path.join(td, 'try.cpp')
                with open(src, 'w') as fh:
                    fh.write(gen_driver(K, V, ts, alt, extra=found + [(cls, call)]))
                p = subprocess.run(['clang++', '-std=gnu++17', '-I', os.path.join(repo, 'inc'), '-fsyntax-only', '-UNDEBUG', '-Wno-everything', src],
                                   stdout=subprocess.PIPE, stderr=subprocess.PIPE, text=True)
                if p.returncode == 0:
                    found.append((cls, call))
                    break
    os.makedirs(CACHE, exist_ok=True)
    tmp = cpath + '.%d.tmp' % os.getpid()
    with open(tmp, 'w') as fh:
        json.dump(found, fh)
    os.replace(tmp, cpath)
    return found


def _raw_objects(text):
    dec = json.JSONDecoder()
    i, n, out = 0, len(text), []
    while i < n:
        while i < n and text[i] in ' \n\r\t':
            i += 1
        if i >= n:
            break
        if text[i] != '{':
            j = text.find('\n', i)
            i = j + 1 if j >= 0 else n
            continue
        o, i = dec.raw_decode(text, i)
        out.append(o)
    return out


class _Loc:
    """clang's JSON dumper prints file/line only when they change; carry them forward."""

    def __init__(self):
        self.file = None
        self.line = None

    def fix(self, d):
        if not isinstance(d, dict) or not d:
            return None
        if 'spellingLoc' in d or 'expansionLoc' in d:
            sp = self.fix(d.get('spellingLoc'))
            ex = self.fix(d.get('expansionLoc'))
            return ex or sp
        if 'file' in d:
            self.file = d['file']
        if 'line' in d:
            self.line = d['line']
        if 'offset' not in d:
            return None
        return (self.file, self.line, d.get('col'))

    def walk(self, n):
        if isinstance(n, list):
            for c in n:
                self.walk(c)
            return
        if not isinstance(n, dict):
            return
        loc = None
        if 'loc' in n:
            loc = self.fix(n['loc'])
        rb = None
        if 'range' in n:
            rb = self.fix(n['range'].get('begin'))
            self.fix(n['range'].get('end'))
        n['_loc'] = rb or loc
        for c in n.get('inner', []):
            self.walk(c)
        # template specialisations of function templates etc. live under other keys? no: only 'inner'.


def dump_ast(repo, ts='yes', K='unsigned long', V='std::string', alt=False, verbose=False, extra=()):
    """Return the list of top-level AST objects (namespaces, specialisations) with _loc resolved."""
    drv = gen_driver(K, V, ts, alt, extra)
    key = hashlib.sha256((inc_hash(repo) + drv + TOOL_VERSION).encode()).hexdigest()[:24]
    os.makedirs(CACHE, exist_ok=True)
    cpath = os.path.join(CACHE, 'ast-%s.pkl' % key)
    if os.path.exists(cpath):
        try:
            with open(cpath, 'rb') as fh:
                return pickle.load(fh)
        except Exception:
            pass
    t0 = time.time()
    with tempfile.TemporaryDirectory(prefix='capcheck-') as td:
        src = os.path.join(td, 'driver.cpp')
        with open(src, 'w') as fh:
            fh.write(drv)
        cmd = ['clang++', '-std=gnu++17', '-I', os.path.join(repo, 'inc'), '-fsyntax-only', '-UNDEBUG',
               '-Wno-everything', '-Xclang', '-ast-dump=json', '-Xclang', '-ast-dump-filter=cappuccino', src]
        p = subprocess.run(cmd, stdout=subprocess.PIPE, stderr=subprocess.PIPE, text=True)
        if p.returncode != 0:
            raise AnalysisIncomplete('clang front end failed on the instantiation driver:\n' + p.stderr[-3000:])
        objs = _raw_objects(p.stdout)
    lc = _Loc()
    for o in objs:
        lc.walk(o)
    if verbose:
        print('[frontend] dumped %d objects in %.1fs' % (len(objs), time.time() - t0), file=sys.stderr)
    tmp = cpath + '.%d.tmp' % os.getpid()
    with open(tmp, 'wb') as fh:
        pickle.dump(objs, fh, protocol=pickle.HIGHEST_PROTOCOL)
    os.replace(tmp, cpath)
    return objs


# ---------------------------------------------------------------------------------------------
# class models


class Method:
    def __init__(self, node, access, cls, template=None):
        self.node = node
        self.id = node['id']
        self.name = node['name']
        self.access = access
        self.cls = cls
        self.template = template
        self.type = node.get('type', {}).get('qualType', '')
        self.is_ctor = node['kind'] == 'CXXConstructorDecl'
        self.is_const = ') const' in self.type
        self.params = [c for c in node.get('inner', []) if c.get('kind') == 'ParmVarDecl']
        self.body = next((c for c in node.get('inner', []) if c.get('kind') == 'CompoundStmt'), None)
        self.inits = [c for c in node.get('inner', []) if c.get('kind') == 'CXXCtorInitializer']
        self.loc = node.get('_loc')

    @property
    def ret_type(self):
        t = self.type
        if '->' in t:
            return t.rsplit('->', 1)[1].strip()
        return t.split('(')[0].strip()

    @property
    def qname(self):
        return '%s::%s' % (self.cls.name, self.name)

    def key(self):
        """stable descriptor: name + parameter names (distinguishes fifo's overloads)."""
        return '%s(%s)' % (self.name, ','.join(p.get('name', '_') for p in self.params))

    def __repr__(self):
        return '<Method %s>' % self.qname


class Field:
    def __init__(self, node, owner):
        self.node = node
        self.id = node['id']
        self.name = node['name']
        self.type = node['type'].get('desugaredQualType') or node['type']['qualType']
        self.sugar = node['type']['qualType']
        self.mutable = bool(node.get('mutable'))
        self.owner = owner
        self.loc = node.get('_loc')
        self.has_init = any(True for c in node.get('inner', []))


class Record:
    def __init__(self, node):
        self.node = node
        self.name = node.get('name')
        self.id = node['id']
        self.fields = [Field(c, self) for c in node.get('inner', []) if c.get('kind') == 'FieldDecl']
        # member functions of the nested record that have a body (inlined on the object they are called on)
        self.methods = {}
        # a user-written destructor that does something (scope guard): run at scope exit, which the engine does not model
        self.dtor_body = None
        for c in node.get('inner', []):
            if c.get('kind') == 'CXXDestructorDecl' and not c.get('isImplicit'):
                body = next((x for x in c.get('inner', []) if x.get('kind') == 'CompoundStmt'), None)
                if body is not None and [x for x in body.get('inner', []) if isinstance(x, dict) and x.get('kind')]:
                    self.dtor_body = body
        for c in node.get('inner', []):
            if c.get('kind') == 'CXXMethodDecl' and not c.get('isImplicit') and any(x.get('kind') == 'CompoundStmt' for x in c.get('inner', [])):
                self.methods[c['id']] = c
            elif c.get('kind') == 'FunctionTemplateDecl':
                for f in c.get('inner', []):
                    if f.get('kind') == 'CXXMethodDecl' and any(x.get('kind') == 'CompoundStmt' for x in f.get('inner', [])):
                        self.methods[f['id']] = f


class ClassModel:
    def __init__(self, node):
        self.node = node
        self.name = node['name']
        self.id = node['id']
        self.loc = node.get('_loc')
        self.fields = []
        self.methods = []       # all methods with bodies (non-template + template instantiations)
        self.records = {}       # nested record name -> Record
        self.uninstantiated_templates = []
        access = 'private'  # class default
        for c in node.get('inner', []):
            k = c.get('kind')
            if k == 'AccessSpecDecl':
                access = c.get('access', access)
            elif k == 'FieldDecl':
                self.fields.append(Field(c, self))
            elif k in ('CXXMethodDecl', 'CXXConstructorDecl'):
                if c.get('isImplicit'):
                    continue
                m = Method(c, access, self)
                if m.body is not None or m.is_ctor:
                    self.methods.append(m)
            elif k == 'FunctionTemplateDecl':
                insts = [cc for cc in c.get('inner', []) if cc.get('kind') == 'CXXMethodDecl']
                got = 0
                for cc in insts:
                    m = Method(cc, access, self, template=c['name'])
                    if m.body is not None and not _is_dependent(cc):
                        self.methods.append(m)
                        got += 1
                if not got:
                    self.uninstantiated_templates.append((c['name'], access, c.get('_loc')))
            elif k == 'CXXRecordDecl' and not c.get('isImplicit'):
                if c.get('completeDefinition') or any(x.get('kind') == 'FieldDecl' for x in c.get('inner', [])):
                    self.records[c.get('name')] = Record(c)
        self.by_id = {m.id: m for m in self.methods}
        self.field_by_name = {f.name: f for f in self.fields}

    def public_methods(self):
        return [m for m in self.methods if m.access == 'public' and not m.is_ctor]

    def ctor(self):
        return next((m for m in self.methods if m.is_ctor), None)

    def method(self, name):
        ms = [m for m in self.methods if m.name == name]
        return ms


def _is_dependent(n):
    t = n.get('type', {}).get('qualType', '')
    return 'range_type' in t or 'type-parameter' in t or ('iterator' in t.split('->')[0] and 'std::' not in t and '__' not in t)


def _walk(n):
    yield n
    for c in n.get('inner', []) or []:
        if isinstance(c, dict):
            yield from _walk(c)


class Program:
    """Everything the analyses need from one AST dump."""

    def __init__(self, objs, ts):
        self.ts = ts
        self.classes = {}
        self.decls = {}      # id -> node, for functions / enums in namespace cappuccino
        self.funcs = {}      # free functions of namespace cappuccino by name
        self.enums = {}
        self.mutex_specs = []
        want = 'cappuccino::thread_safe::' + ts
        self.free_functions = {}     # id -> FunctionDecl node with a body (namespace cappuccino and nested namespaces; template instantiations)
        self.constants = {}          # id -> ('int', v) / ('bool', v): constexpr / const variables with a literal initialiser

        def fold(n):
            while True:
                k = n.get('kind')
                if k == 'IntegerLiteral':
                    try:
                        return ('int', int(n.get('value')))
                    except (TypeError, ValueError):
                        return None
                if k == 'CXXBoolLiteralExpr':
                    return ('bool', bool(n.get('value')))
                inner = [c for c in n.get('inner', []) or [] if isinstance(c, dict) and c.get('kind')]
                if k in ('ImplicitCastExpr', 'InitListExpr', 'ConstantExpr', 'ParenExpr', 'CXXFunctionalCastExpr', 'CXXStaticCastExpr',
                         'ExprWithCleanups') and len(inner) == 1:
                    n = inner[0]
                    continue
                return None

        def constants(n):
            for c in n.get('inner', []) or []:
                if not isinstance(c, dict):
                    continue
                k = c.get('kind')
                if k == 'VarDecl' and (c.get('constexpr') or c.get('type', {}).get('qualType', '').startswith('const ')):
                    init = [x for x in c.get('inner', []) or [] if isinstance(x, dict) and x.get('kind') and not x['kind'].endswith('Comment')]
                    v = fold(init[-1]) if init else None
                    if v is not None:
                        self.constants[c['id']] = v
                elif k in ('NamespaceDecl', 'CXXRecordDecl', 'ClassTemplateDecl', 'ClassTemplateSpecializationDecl'):
                    constants(c)
        for o in objs:
            if o.get('kind') in ('NamespaceDecl', 'CXXRecordDecl', 'ClassTemplateDecl', 'ClassTemplateSpecializationDecl'):
                constants(o)

        # classes of the library (at any depth) whose user-written destructor does something: scope guards
        self.dtor_classes = set()

        def find_dtors(n, depth=0):
            if not isinstance(n, dict) or depth > 8:
                return
            if n.get('kind') == 'CXXRecordDecl' and n.get('name'):
                for c in n.get('inner', []) or []:
                    if isinstance(c, dict) and c.get('kind') == 'CXXDestructorDecl' and not c.get('isImplicit'):
                        body = next((x for x in c.get('inner', []) if isinstance(x, dict) and x.get('kind') == 'CompoundStmt'), None)
                        if body is not None and [x for x in body.get('inner', []) if isinstance(x, dict) and x.get('kind')]:
                            self.dtor_classes.add(n['name'])
            for c in n.get('inner', []) or []:
                if isinstance(c, dict) and c.get('kind') in ('NamespaceDecl', 'CXXRecordDecl', 'ClassTemplateDecl', 'ClassTemplateSpecializationDecl'):
                    find_dtors(c, depth + 1)
        for o in objs:
            find_dtors(o)
        # helper classes of the library at namespace level (detail::scope_exit<F> ...): their instantiated specialisations, by name
        self.helper_specs = {}

        def find_helpers(n, depth=0):
            if not isinstance(n, dict) or depth > 6:
                return
            for c in n.get('inner', []) or []:
                if not isinstance(c, dict):
                    continue
                k = c.get('kind')
                if k == 'NamespaceDecl':
                    find_helpers(c, depth + 1)
                elif k == 'ClassTemplateDecl' and c.get('name') in self.dtor_classes and c.get('name') not in CONTAINERS:
                    for sp in c.get('inner', []) or []:
                        if isinstance(sp, dict) and sp.get('kind') == 'ClassTemplateSpecializationDecl' and \
                                any(isinstance(x, dict) and x.get('kind') == 'FieldDecl' for x in sp.get('inner', [])):
                            self.helper_specs.setdefault(c['name'], []).append(Record(sp))
                elif k == 'CXXRecordDecl' and c.get('name') in self.dtor_classes and c.get('completeDefinition'):
                    self.helper_specs.setdefault(c['name'], []).append(Record(c))
        for o in objs:
            if isinstance(o, dict) and o.get('kind') == 'NamespaceDecl':
                find_helpers(o)

        def collect(ns):
            for c in ns.get('inner', []) or []:
                k = c.get('kind')
                if k == 'NamespaceDecl':
                    collect(c)
                elif k == 'FunctionDecl' and any(x.get('kind') == 'CompoundStmt' for x in c.get('inner', [])):
                    self.free_functions[c['id']] = c
                elif k == 'FunctionTemplateDecl':
                    for f in c.get('inner', []):
                        if f.get('kind') == 'FunctionDecl' and any(x.get('kind') == 'CompoundStmt' for x in f.get('inner', [])):
                            self.free_functions[f['id']] = f
        for o in objs:
            if o.get('kind') == 'NamespaceDecl':
                collect(o)
            elif o.get('kind') == 'FunctionDecl' and any(x.get('kind') == 'CompoundStmt' for x in o.get('inner', [])):
                self.free_functions[o['id']] = o
            elif o.get('kind') == 'FunctionTemplateDecl':
                for f in o.get('inner', []):
                    if f.get('kind') == 'FunctionDecl' and any(x.get('kind') == 'CompoundStmt' for x in f.get('inner', [])):
                        self.free_functions[f['id']] = f
        for o in objs:
            if o.get('kind') == 'NamespaceDecl':
                for c in o.get('inner', []):
                    k = c.get('kind')
                    if k == 'FunctionDecl' and c.get('name') in ('insert_allowed', 'update_allowed'):
                        if any(x.get('kind') == 'CompoundStmt' for x in c.get('inner', [])):
                            self.funcs[c['name']] = c
                    elif k == 'EnumDecl':
                        self.enums[c.get('name')] = c
                    elif k == 'ClassTemplateDecl' and c.get('name') == 'mutex':
                        for s in c.get('inner', []):
                            if s.get('kind') == 'ClassTemplateSpecializationDecl':
                                self.mutex_specs.append(s)
            elif o.get('kind') == 'ClassTemplateSpecializationDecl' and o.get('name') in CONTAINERS:
                if not any(x.get('kind') in ('CXXMethodDecl',) for x in o.get('inner', [])):
                    continue
                cm = ClassModel(o)
                self.classes[cm.name] = cm
        for cm in self.classes.values():
            for m in cm.methods:
                self.decls[m.id] = m

    def check_complete(self):
        probs = []
        self.skipped_templates = []
        for name in CONTAINERS:
            if name not in self.classes:
                probs.append('container %s: no instantiated specialisation in the AST dump' % name)
                continue
            cm = self.classes[name]
            for (t, access, loc) in cm.uninstantiated_templates:
                if access == 'public' and t in API_TEMPLATES:
                    probs.append('%s::%s (%s): public member template has no instantiated body '
                                 '(driver does not cover it)' % (name, t, fmt_loc(loc)))
                elif access == 'public':
                    # a member template outside the documented API that nothing instantiates has no body to analyse (and no
                    # caller in the library): recorded, not analysed
                    self.skipped_templates.append('%s::%s (%s)' % (name, t, fmt_loc(loc)))
            if cm.ctor() is None:
                probs.append('container %s: no user constructor found' % name)
        if probs:
            raise AnalysisIncomplete('G-INST: ' + '; '.join(probs))


API_TEMPLATES = ('insert', 'insert_range', 'erase', 'erase_range', 'find', 'find_range', 'find_range_fill')


def fmt_loc(loc, repo=None):
    if not loc:
        return '?'
    f, l, c = loc
    if f and '/inc/cappuccino/' in f:
        f = 'inc/cappuccino/' + f.split('/inc/cappuccino/')[1]
    return '%s:%s' % (f, l)


def load_program(repo, ts='yes', **kw):
    objs = dump_ast(repo, ts=ts, **kw)
    p = Program(objs, ts)
    extra = auto_instantiations(repo, p, ts, kw.get('K', 'unsigned long'), kw.get('V', 'std::string'), kw.get('alt', False))
    if extra:
        objs = dump_ast(repo, ts=ts, extra=tuple(extra), **kw)
        p = Program(objs, ts)
        p.auto_instantiated = ['%s::%s' % e for e in extra]
    p.check_complete()
    return p


if __name__ == '__main__':
    repo = sys.argv[1] if len(sys.argv) > 1 else '/repo'
    t0 = time.time()
    prog = load_program(repo, verbose=True)
    print('loaded in %.1fs' % (time.time() - t0))
    for name, cm in prog.classes.items():
        print(name, fmt_loc(cm.loc), 'fields:', [(f.name) for f in cm.fields])
        for m in cm.methods:
            print('   ', m.access, m.key(), fmt_loc(m.loc), '->', m.ret_type[:60])
        print('    records:', {k: [f.name for f in r.fields] for k, r in cm.records.items()})
