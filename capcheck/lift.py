"""Lifting of path traces to semantic predicates and abstract effects (DESIGN.md 3.2, 3.3, 5).

A *segment* is a method-level path or one arbitrary loop iteration.  Terms are first made
relative to the segment's starting era (value reads ('ld', 0, loc) = value at segment entry,
query epoch 0 = container shape at segment entry), then branch conditions are classified into
the container's semantic predicates and events into abstract effects over *entities*
(slots / nodes named by how they were reached).
"""
from model import THIS
from symex import show, show_site, Path


# ---------------------------------------------------------------------------------------------- rel

def rel(t, era0):
    if not isinstance(t, tuple) or not t:
        return t
    k = t[0]
    if k == 'ld':
        return ('ld', t[1] - era0, rel(t[2], era0))
    if k == 'q':
        ep = t[4]
        return ('q', t[1], rel(t[2], era0), tuple(rel(a, era0) for a in t[3]), None if ep is None else ep - era0 * 1000)
    if k == 'adv':
        return ('adv', t[1], rel(t[2], era0), t[3] - era0 * 1000)
    if k == 'ma':
        return ('ma', rel(t[1], era0), t[2] - era0)
    return tuple(rel(x, era0) if isinstance(x, tuple) else x for x in t)


def loop_invariant_fields(lp):
    """member fields that no iteration of the loop writes (directly or through a container call): a value of such a field read
    before the loop (hoisted into a local) is the value it has in every iteration"""
    cached = getattr(lp, '_written', None)
    if cached is None:
        from symex import root_of
        written = set()

        def walk(paths):
            for p in paths:
                for e in p.trace:
                    if e[0] in ('wr', 'call', 'atomic', 'swap', 'iota'):
                        r = root_of(e[1])
                        if r[0] == 'field':
                            written.add(r[1])
                        elif r[0] == 'this':
                            written.add('*')
                        # memory reached through iterators / call results is element storage, never a member of *this itself
                        if e[0] == 'swap':
                            r2 = root_of(e[2])
                            if r2[0] == 'field':
                                written.add(r2[1])
                    elif e[0] == 'unknown':
                        written.add('*')
                    elif e[0] == 'loop':
                        walk(e[1].iters)
        walk(lp.iters)
        lp._written = written
        cached = written
    return cached


def unstale(t, written):
    """a scalar member read in an earlier era whose field the loop never writes: the same as reading it now"""
    if not isinstance(t, tuple) or not t:
        return t
    if t[0] == 'ld' and len(t) == 3 and isinstance(t[1], int) and t[1] < 0 and isinstance(t[2], tuple) and t[2][:2] == ('fld', ('this',)) \
            and '*' not in written and t[2][2] not in written:
        return ('ld', 0, t[2])
    return tuple(unstale(x, written) if isinstance(x, tuple) else x for x in t)


def subterms(t):
    if isinstance(t, tuple) and t:
        yield t
        for x in t[1:]:
            if isinstance(x, tuple):
                yield from subterms(x)


def contains(t, pred):
    return any(pred(x) for x in subterms(t))


def ld0(loc):
    return ('ld', 0, loc)


def is_ld(t, loc=None):
    return isinstance(t, tuple) and t[0] == 'ld' and (loc is None or t[2] == loc)


def unld(t):
    """strip value wrapper: ('ld', e, loc) -> loc"""
    return t[2] if isinstance(t, tuple) and t[0] == 'ld' else t


# ---------------------------------------------------------------------------------------------- linear normal form (NUM)

def linear(t):
    """-> (dict atom->coef, const) for integer-like terms; atoms are opaque terms"""
    if isinstance(t, tuple):
        if t[0] == 'int':
            return {}, t[1]
        if t[0] == 'add':
            a, c = linear(t[1])
            return a, c + t[2]
        if t[0] == 'bin' and t[1] in ('+', '-'):
            a, ca = linear(t[2])
            b, cb = linear(t[3])
            out = dict(a)
            s = 1 if t[1] == '+' else -1
            for k, v in b.items():
                out[k] = out.get(k, 0) + s * v
                if out[k] == 0:
                    del out[k]
            return out, ca + s * cb
        if t[0] == 'cast':
            return linear(t[2])
    return {t: 1}, 0


def norm_cmp(t):
    """('cmp', op, a, b) -> (atoms, const, op') meaning  sum(atoms) + const  op'  0, op' in <, <=, ==, !=
    with a canonical sign (first atom in sorted order has positive coefficient for ==/!=)."""
    if not (isinstance(t, tuple) and t[0] == 'cmp'):
        return None
    op, a, b = t[1], t[2], t[3]
    if op in ('>', '>='):
        a, b = b, a
        op = '<' if op == '>' else '<='
    la, ca = linear(a)
    lb, cb = linear(b)
    atoms = dict(la)
    for k, v in lb.items():
        atoms[k] = atoms.get(k, 0) - v
        if atoms[k] == 0:
            del atoms[k]
    return atoms, ca - cb, op


def negate(nc):
    """negation of a normalised comparison (a + c op 0)"""
    atoms, c, op = nc
    if op == '==':
        return atoms, c, '!='
    if op == '!=':
        return atoms, c, '=='
    neg = {k: -v for k, v in atoms.items()}
    # not (x < 0)  ==  -x <= 0 ;  not (x <= 0) == -x < 0
    return neg, -c, ('<=' if op == '<' else '<')


# ---------------------------------------------------------------------------------------------- entities

class Ent:
    """a slot / node named by how it was reached"""

    def __init__(self, kind, arg=None, epoch=0, term=None):
        self.kind, self.arg, self.epoch, self.term = kind, arg, epoch, term

    def key(self):
        return (self.kind, self.arg, self.epoch)

    def __eq__(self, o):
        return isinstance(o, Ent) and self.key() == o.key()

    def __hash__(self):
        return hash(self.key())

    def __repr__(self):
        a = '' if self.arg is None else '(%s)' % (show(self.arg) if isinstance(self.arg, tuple) else self.arg)
        return '%s%s%s' % (self.kind, a, '' if not self.epoch else '@%s' % self.epoch)


class Lifter:
    def __init__(self, roles):
        self.r = roles
        r = roles
        self.index = THIS(r.index)
        self.slots = THIS(r.slots) if r.slots else None
        self.order = THIS(r.order) if r.order else None
        self.part = THIS(r.part) if r.part else None
        self.counter = THIS(r.counter) if r.counter else None
        self.perm = THIS(r.perm) if getattr(r, 'perm', None) else None
        self.aux = {THIS(a): (a, k) for a, k in r.aux_kind.items()}
        self.cur_seg = None      # the segment being lifted (context for loop-carried iterators)
        self.walkers = {}        # (iterator name, loop id) -> auxiliary structure whose head the iterator denotes in every iteration

    def lv_walk_aux(self, lv):
        """a loop-carried local iterator that walks an auxiliary structure from its head (`for (auto it = m_ttl_list.begin(); it != B; ...)`):
        the enclosing path declared / assigned it `aux.begin()` and the current iteration is guarded by a comparison of it with a
        boundary (another iterator of that structure) -> THIS(aux) or None"""
        seg = self.cur_seg
        if seg is None or not (isinstance(lv, tuple) and len(lv) > 2 and lv[0] == 'lv'):
            return None
        name = lv[1]
        guarded = False
        for c in seg.conds:
            raw = c[4] if len(c) > 4 else None
            if isinstance(raw, tuple) and raw and raw[0] == 'cmp' and raw[1] in ('!=', '==') and (raw[1] == '!=') == bool(c[5]):
                if any(isinstance(x, tuple) and x[:2] == ('lv', name) for x in (raw[2], raw[3])):
                    guarded = True
        if not guarded:
            return None
        p = seg.parent
        found = None
        while p is not None and found is None:
            for e in p.effects:
                if e.kind == 'LOCAL' and isinstance(e.loc, tuple) and len(e.loc) > 1 and e.loc[1] == name:
                    v = e.val
                    if isinstance(v, tuple) and len(v) > 2 and v[0] == 'q' and v[1] in ('begin', 'cbegin') and v[2] in self.aux:
                        found = v[2]
                    else:
                        found = None
            p = p.parent
        return found

    def lv_walk_aux_decl(self, lv):
        """like lv_walk_aux, without requiring the guard (used to classify the guard itself)"""
        seg = self.cur_seg
        if seg is None or not (isinstance(lv, tuple) and len(lv) > 2 and lv[0] == 'lv'):
            return None
        name = lv[1]
        p = seg.parent if seg.loop is not None else seg
        found = None
        while p is not None and found is None:
            for e in p.effects:
                if e.kind == 'LOCAL' and isinstance(e.loc, tuple) and len(e.loc) > 1 and e.loc[1] == name:
                    v = e.val
                    if isinstance(v, tuple) and len(v) > 2 and v[0] == 'q' and v[1] in ('begin', 'cbegin') and v[2] in self.aux:
                        found = v[2]
                    else:
                        found = None
            p = p.parent
        return found

    # ---- slot ids -----------------------------------------------------------------------------
    def is_find(self, t):
        return isinstance(t, tuple) and t[0] == 'q' and t[1] == 'find' and t[2] == self.index

    def sid_entity(self, sid):
        """classify a value term denoting a slot id (size_t / node iterator / map iterator)"""
        r = self.r
        if not isinstance(sid, tuple):
            return Ent('OTHER', None, 0, sid)
        if sid[0] == 'ma':
            return Ent('MAYALIAS', None, 0, sid)
        if r.kind == 'maplist':
            if self.is_find(sid):
                return Ent('FOUND', sid[3][0], sid[4] or 0, sid)
            if sid[0] == 'ld' and isinstance(sid[2], tuple) and sid[2][0] == 'fld' and sid[2][2] == 'm_keyed_elements_position':
                base = sid[2][1]
                n = self.node_entity(base if (isinstance(base, tuple) and base[0] == 'q') else unld_node(base))
                return Ent('VIA', n.key(), 0, sid)
            if sid[0] == 'fld' and sid[2] == 'first' and sid[1][0] == 'res':
                return Ent('NEW', sid[1][1], 0, sid)
            if sid[0] == 'res':
                return Ent('NEW', sid[1], 0, sid)       # emplace_hint / insert(hint, ..) return the iterator itself
            if sid[0] == 'ld' and sid[2][0] == 'fld' and sid[2][2] == 'first' and sid[2][1][0] == 'res':
                return Ent('NEW', sid[2][1][1], 0, sid)
        v = sid
        if v[0] == 'ld':
            era, loc = v[1], v[2]
            if era != 0:
                return Ent('STALE', None, era, sid)
            if r.kind == 'slotvec' and self.order is not None and loc[0] == 'deref' and isinstance(loc[1], tuple):
                # *std::prev(l.end()) is l.back(), *l.begin() is l.front()
                it = loc[1]
                if it[0] == 'adv' and it[1] == -1 and isinstance(it[2], tuple) and it[2][0] == 'q' and it[2][1] in ('end', 'cend') and it[2][2] == self.order:
                    loc = ('q', 'back', self.order, (), it[3])
                elif it[0] == 'q' and it[1] in ('begin', 'cbegin') and it[2] == self.order:
                    loc = ('q', 'front', self.order, (), it[4])
            if loc[0] == 'fld' and loc[2] == 'second' and loc[1][0] == 'deref' and isinstance(loc[1][1], tuple) and loc[1][1][:1] == ('lv',):
                hd = self.walkers.get((loc[1][1][1], loc[1][1][2])) if len(loc[1][1]) > 2 else None
                if hd is not None:
                    return Ent('AUXHEAD', hd, 0, sid)
                wa = self.lv_walk_aux(loc[1][1])
                if wa is not None:
                    e = Ent('AUXNODE', self.aux[wa][0], 0, sid)
                    e.walker = loc[1][1][1]
                    return e
            if loc[0] == 'fld' and loc[2] == 'second' and loc[1][0] == 'elem' and loc[1][1] in self.aux:
                # a node met while iterating over an auxiliary structure: RI, it files a bound slot
                return Ent('AUXNODE', self.aux[loc[1][1]][0], 0, sid)
            if loc[0] == 'fld' and loc[2] == 'second' and loc[1][0] == 'deref':
                it = loc[1][1]
                if self.is_find(it):
                    return Ent('FOUND', it[3][0], it[4] or 0, sid)
                if it[0] == 'q' and it[1] in ('begin', 'cbegin') and it[2] in self.aux:
                    return Ent('AUXHEAD', self.aux[it[2]][0], it[4] or 0, sid)
                if it[0] == 'ld' and it[1] == 0:
                    # through a stored back-pointer: (*e.m_keyed_position).second / (*e.m_lfu_position).second
                    bp = it[2]
                    if bp[0] == 'fld' and bp[2] in r.backptrs:
                        # RI: the index / aux entry a bound element's back-pointer denotes maps back to that element
                        e = self.elem_entity(bp[1])
                        e2 = Ent(e.kind, e.arg, e.epoch, sid)
                        e2.via_self = bp[2]
                        return e2
                if it[0] == 'res':
                    return Ent('RESNODE', it[1], 0, sid)
            if loc[0] == 'deref':
                it = loc[1]
                p = self.part_value(it)
                if p is not None and r.kind == 'slotvec':
                    return Ent('ATPART', p[0], p[1], sid)
                if r.kind == 'slotvec' and is_ld(it) and it[1] == 0 and it[2][0] == 'fld' and r.backptrs.get(it[2][2]) == 'order' \
                        and it[2][1][0] == 'idx' and it[2][1][1] == self.slots:
                    # RI: the list node an element's stored position denotes carries that element's own slot id
                    e = self.sid_entity(it[2][1][2])
                    e2 = Ent(e.kind, e.arg, e.epoch, sid)
                    e2.via_self = it[2][2]
                    return e2
                if it[0] == 'q' and it[1] in ('begin', 'cbegin') and it[2] in self.aux:
                    return Ent('AUXHEAD', self.aux[it[2]][0], it[4] or 0, sid)
            if loc[0] == 'q' and loc[1] in ('back', 'front') and loc[2] == self.order:
                return Ent('BACK' if loc[1] == 'back' else 'FRONT', None, loc[4] or 0, sid)
            if loc[0] == 'idx' and self.perm is not None and loc[1] == self.perm:
                x = loc[2]
                if x == ld0(self.part):
                    return Ent('ATPART', 0, 0, sid)
                if isinstance(x, tuple) and x[0] == 'add' and x[1] == ld0(self.part):
                    return Ent('ATPART', x[2], 0, sid)
                if isinstance(x, tuple) and x[0] == 'rng':
                    return Ent('RANDPOS', x[1], 0, sid)
                if isinstance(x, tuple) and x[0] == 'ld' and x[2][0] == 'fld' and x[2][2] == 'm_open_list_position':
                    e = self.elem_entity(x[2][1])
                    return Ent('POSOF', e.key(), 0, sid)
                return Ent('PERMAT', x, 0, sid)
        if r.kind == 'nodelist':
            p = self.part_value(v)
            if p is not None:
                return Ent('ATPART', p[0], p[1], sid)
            if v[0] == 'q' and v[1] in ('begin', 'cbegin') and v[2] == self.order:
                return Ent('FRONT', None, v[4] or 0, sid)
            if v[0] == 'adv' and v[2][0] == 'q' and v[2][1] in ('end', 'cend') and v[2][2] == self.order:
                return Ent('FROMEND', v[1], v[3], sid)
        if v[0] == 'lv':
            return Ent('LV', v[1], 0, sid)
        if v[0] == 'p':
            return Ent('PARAM', v[1], 0, sid)
        if v[0] == 'rng':
            return Ent('RAWRNG', v[1], 0, sid)
        if v[0] == 'res':
            return Ent('RES', v[1], 0, sid)
        return Ent('OTHER', None, 0, sid)

    def part_value(self, v):
        """is v the partition iterator's value (possibly advanced)? -> (offset, epoch)"""
        if self.part is None:
            return None
        if v == ld0(self.part):
            return (0, 0)
        if isinstance(v, tuple) and v[0] == 'adv' and v[2] == ld0(self.part):
            return (v[1], v[3])
        return None

    def elem_entity(self, loc):
        """entity of an element location (m_elements[sid] / *node / (*mapit).second)"""
        r = self.r
        if not isinstance(loc, tuple):
            return Ent('OTHER', None, 0, loc)
        if r.kind == 'slotvec' and loc[0] == 'idx' and loc[1] == self.slots:
            return self.sid_entity(loc[2])
        if r.kind == 'nodelist' and loc[0] == 'deref':
            return self.sid_entity(loc[1])
        if r.kind == 'maplist':
            if loc[0] == 'fld' and loc[2] == 'second' and loc[1][0] == 'deref':
                return self.sid_entity(loc[1][1])
            if loc[0] == 'deref':
                return self.node_entity(loc[1])
            if loc[0] == 'q' and loc[1] in ('front', 'back') and loc[2] in self.aux:
                return self.node_entity(loc)
        return Ent('OTHER', None, 0, loc)

    def node_entity(self, it):
        """ut_map / ut_set ttl-list node named by an iterator value"""
        if isinstance(it, tuple):
            if it[0] == 'lv':
                return Ent('LV', it[1], 0, it)
            if it[0] == 'ld' and it[2][0] == 'fld' and it[2][2] == 'm_ttl_position':
                e = self.elem_entity(it[2][1])
                return Ent('TTLOF', e.key(), 0, it)
            if it[0] == 'adv' and it[2][0] == 'q' and it[2][1] in ('end', 'cend'):
                return Ent('FROMEND', it[1], it[3], it)
            if it[0] == 'q' and it[1] in ('begin', 'cbegin', 'front'):
                return Ent('FRONT', None, it[4] or 0, it)
            if it[0] == 'q' and it[1] == 'back':
                return Ent('FROMEND', -1, it[4] or 0, it)
        return Ent('OTHER', None, 0, it)

    def field_of_elem(self, loc):
        """('fld', elemloc, name) -> (entity, name) if elemloc is an element of this container"""
        if isinstance(loc, tuple) and loc[0] == 'fld':
            e = self.elem_entity(loc[1])
            if e.kind != 'OTHER' or self.looks_like_elem(loc[1]):
                return e, loc[2]
        return None

    def looks_like_elem(self, loc):
        r = self.r
        if r.kind == 'slotvec':
            return isinstance(loc, tuple) and loc[0] == 'idx' and loc[1] == self.slots
        if r.kind == 'nodelist':
            return isinstance(loc, tuple) and loc[0] == 'deref'
        return isinstance(loc, tuple) and (loc[0] == 'deref' or (loc[0] == 'fld' and loc[2] == 'second'))

    # ---- predicates ---------------------------------------------------------------------------
    def classify(self, term):
        """-> (kind, args, polarity): the predicate `kind(args)` holds iff (term is true) == polarity"""
        r = self.r
        t = term
        if isinstance(t, tuple) and len(t) == 4 and t[0] == 'cmp' and t[1] in ('==', '!='):
            # &*it1 == &*it2 (node identity) is it1 == it2; &list.back() is &*std::prev(list.end())
            def node_it(a):
                if isinstance(a, tuple) and len(a) == 2 and a[0] == 'addr' and isinstance(a[1], tuple) and a[1]:
                    n = a[1]
                    if n[0] == 'deref' and len(n) == 2:
                        return n[1]
                    if n[0] == 'q' and n[1] == 'back' and len(n) > 4:
                        return ('adv', -1, ('q', 'end', n[2], (), None), (n[4] or 0))
                    if n[0] == 'q' and n[1] == 'front' and len(n) > 4:
                        return ('q', 'begin', n[2], (), n[4])
                return None
            ia, ib = node_it(t[2]), node_it(t[3])
            if ia is not None and ib is not None:
                t = ('cmp', t[1], ia, ib)
        if isinstance(t, tuple) and len(t) == 4 and t[0] == 'cmp' and t[1] in ('<', '>=') and t[3] == ('int', 0):
            # floor<coarser>(d).count() < 0  <=>  d < 0 (rounding towards minus infinity keeps the sign test exact; truncation does not)
            x = t[2]
            while isinstance(x, tuple) and len(x) == 3 and x[0] == 'cast':
                x = x[2]
            if isinstance(x, tuple) and len(x) >= 3 and x[0] == 'mcall' and x[1] == 'count' and isinstance(x[2], tuple) \
                    and x[2][:2] == ('fncall', 'floor') and len(x[2]) > 2 and len(x[2][2]) == 1:
                return self.classify(('cmp', t[1], x[2][2][0], ('int', 0)))
        if isinstance(t, tuple) and len(t) == 4 and t[0] == 'cmp' and t[1] in ('<', '<=', '!=') and t[3] == ('fncall', 'max', ()) \
                and isinstance(t[2], tuple) and t[2][:1] in (('lv',), ('var',)):
            # `count < std::numeric_limits<size_t>::max()` ("no limit"): a local tally of entries never gets there
            return ('TRUE', (), True)
        if isinstance(t, tuple) and t[0] == 'pred':
            return ('INS_OK' if t[1] == 'insert_allowed' else 'UPD_OK', (t[2],), True)
        if isinstance(t, tuple) and t[0] == 'cmp' and t[1] in ('==', '!='):
            # a == allow::insert (switch over the mode): decides both permission predicates (R-ALLOW-ENC checks the encoding)
            for x, y in ((t[2], t[3]), (t[3], t[2])):
                if isinstance(y, tuple) and y and y[0] == 'enum' and 'allow' in str(y[1]) and y[2] in ALLOW_TABLE \
                        and isinstance(x, tuple) and x and x[0] == 'p':
                    return ('ALLOW_IS', (x, y[2]), t[1] == '==')
            # (bits(a) & (insert | update)) == insert: the same decision spelled with the enumerators' bits; only the full mask
            # identifies the mode (R-ALLOW-ENC checks that insert_or_update is the union of the two bits)
            for x, y in ((t[2], t[3]), (t[3], t[2])):
                if isinstance(x, tuple) and len(x) == 4 and x[0] == 'bin' and x[1] == '&':
                    for u, msk in ((x[2], x[3]), (x[3], x[2])):
                        pu = u[2] if isinstance(u, tuple) and len(u) == 3 and u[0] == 'cast' else u
                        if isinstance(pu, tuple) and pu[:1] == ('p',) and allow_bits(msk) == frozenset(('insert', 'update')) and allow_bits(y):
                            bits = allow_bits(y)
                            name = 'insert_or_update' if len(bits) == 2 else next(iter(bits))
                            return ('ALLOW_IS', (pu, name), t[1] == '==')
        if isinstance(t, tuple) and t[0] == 'hasval':
            v = t[1]
            if is_ld(v) and v[2][0] == 'fld' and v[2][2] in r.backptrs:
                return ('HASKEY', (self.elem_entity(v[2][1]),), True)
            return ('HASVAL', (v,), True)
        if isinstance(t, tuple) and t[0] == 'q' and t[1] == 'empty' and t[2] == self.index:
            return ('NONEMPTY', (), False)
        if isinstance(t, tuple) and t[0] == 'q' and t[1] == 'empty' and t[2] in self.aux:
            return ('AUX_NONEMPTY', (self.aux[t[2]][0],), False)
        if isinstance(t, tuple) and t[0] == 'p':
            if t[1] == 'peek':
                return ('PEEK', (), True)
            return ('PARAM', (t[1],), True)
        if isinstance(t, tuple) and t[0] == 'cmp':
            op, a, b = t[1], t[2], t[3]
            # PRESENT
            for x, y in ((a, b), (b, a)):
                if self.is_find(x) and isinstance(y, tuple) and y[0] == 'q' and y[1] in ('end', 'cend') and y[2] == self.index:
                    if op in ('!=', '=='):
                        return ('PRESENT', (x[3][0], x[4] or 0), op == '!=')
            # PRESENT spelled with count(): count(k) != 0, count(k) > 0, count(k) == 1, 0 < count(k) ...
            for x, y, flip in ((a, b, False), (b, a, True)):
                if isinstance(x, tuple) and x and x[0] == 'q' and x[1] in ('count',) and x[2] == self.index and len(x[3]) == 1 \
                        and isinstance(y, tuple) and y[0] == 'int':
                    o = {'<': '>', '>': '<', '<=': '>=', '>=': '<='}.get(op, op) if flip else op
                    c0 = y[1]
                    table = {('!=', 0): True, ('>', 0): True, ('>=', 1): True, ('==', 1): True,
                             ('==', 0): False, ('<', 1): False, ('<=', 0): False, ('!=', 1): False}
                    if (o, c0) in table:
                        return ('PRESENT', (x[3][0], x[4] or 0), table[(o, c0)])
            # PEEK enum
            for x, y in ((a, b), (b, a)):
                if isinstance(x, tuple) and x[0] == 'p' and isinstance(y, tuple) and y[0] == 'enum' and (y[1] or '').endswith('peek'):
                    if op in ('==', '!='):
                        # peek == peek::no  <=> not PEEK
                        is_no = y[2] == 'no'
                        return ('PEEK', (), (op == '==') != is_no)
            # bool parameter compared with a literal: peek == false, true != peek ...
            for x, y in ((a, b), (b, a)):
                if isinstance(x, tuple) and x[0] == 'p' and isinstance(y, tuple) and y[0] in ('bool', 'int') and y[1] in (True, False, 0, 1) \
                        and op in ('==', '!='):
                    truth_when = bool(y[1]) if op == '==' else not bool(y[1])     # cmp true  <=>  x == truth_when
                    if x[1] == 'peek':
                        return ('PEEK', (), truth_when)
                    return ('PARAM', (x[1],), truth_when)
            nc = norm_cmp(t)
            atoms, c, nop = nc
            # counter vs capacity / zero
            if True:
                # the index size is the element count (RI: |index| == counter)
                sz = [x for x in atoms if isinstance(x, tuple) and x[0] == 'q' and x[1] == 'size' and x[2] == self.index]
                if len(sz) == 1 and len(atoms) == 1:
                    k = atoms[sz[0]]
                    if (k == -1 and nop == '<' and c == 0) or (k == 1 and nop == '!=' and c == 0):
                        return ('NONEMPTY', (), True)
                    if (k == 1 and nop in ('<=', '==') and c == 0):
                        return ('NONEMPTY', (), False)
            if self.counter is not None:
                cnt = ld0(self.counter)
                caps = [x for x in atoms if self.is_capacity(x)]
                if cnt in atoms and len(atoms) == 2 and len(caps) == 1:
                    cap = caps[0]
                    # cap - cnt + c  op 0
                    if atoms[cnt] == -1 and atoms[cap] == 1:
                        if nop == '<=' and c == 0:
                            return ('FULL', (), True)       # cap <= cnt
                        if nop == '<' and c == 0:
                            return ('OVERFULL', (), True)   # cap < cnt   (cnt > cap)
                        if nop == '==' and c == 0:
                            return ('FULL', (), True)       # RI at entry: cnt <= cap
                        if nop == '!=' and c == 0:
                            return ('FULL', (), False)
                        return ('CAPCMP', (c, nop, +1), True)
                    if atoms[cnt] == 1 and atoms[cap] == -1:
                        if nop == '<' and c == 0:
                            return ('FULL', (), False)      # cnt < cap
                        if nop == '<=' and c == 0:
                            return ('OVERFULL', (), False)  # cnt <= cap
                        # RI at entry: cnt <= cap (proved inductively by C02 R-BOUND), so `cnt == cap` is the full test
                        if nop == '==' and c == 0:
                            return ('FULL', (), True)
                        if nop == '!=' and c == 0:
                            return ('FULL', (), False)
                        return ('CAPCMP', (c, nop, -1), True)
                if list(atoms) == [cnt]:
                    k = atoms[cnt]
                    if k == -1 and nop == '<' and c == 0:
                        return ('NONEMPTY', (), True)       # 0 < cnt
                    if k == 1 and nop == '<=' and c == 0:
                        return ('NONEMPTY', (), False)      # cnt <= 0
                    if k == 1 and nop == '==' and c == 0:
                        return ('NONEMPTY', (), False)
                    if k == 1 and nop == '!=' and c == 0:
                        return ('NONEMPTY', (), True)
                    return ('CNTCMP', (k, c, nop), True)
            # time comparisons: now vs deadline / stamp + tick
            nows = [x for x in atoms if isinstance(x, tuple) and x[0] == 'now']
            if len(nows) == 1 and c == 0:
                now = nows[0]
                rest = {k: v for k, v in atoms.items() if k != now}
                dl = [x for x in rest if self.is_deadline_read(x)]
                if len(rest) == 1 and len(dl) == 1:
                    d = dl[0]
                    ent = self.deadline_entity(d)
                    if atoms[now] == 1 and rest[d] == -1:
                        # now - d op 0
                        if nop == '<':
                            return ('EXPIRED', (ent, now, d), False)      # now < d : live
                        if nop == '<=':
                            return ('EXPIRED_STRICT', (ent, now, d), False)  # now <= d  (live incl. boundary: wrong)
                    if atoms[now] == -1 and rest[d] == 1:
                        # d - now op 0
                        if nop == '<=':
                            return ('EXPIRED', (ent, now, d), True)       # d <= now : expired (inclusive)
                        if nop == '<':
                            return ('EXPIRED_STRICT', (ent, now, d), True)   # d < now : expired exclusive (wrong)
                st = [x for x in rest if self.is_stamp_read(x)]
                tick = [x for x in rest if self.is_tick(x)]
                if len(rest) == 1 and len(st) == 1:
                    # the stored instant is already stamp + tick ("due for aging at"): due < now is the strict idle test
                    s = st[0]
                    ent = self.elem_entity(unld(s)[1])
                    if atoms[now] == -1 and rest[s] == 1:
                        if nop == '<':
                            return ('AGED', (ent, now, 'due'), True)
                        if nop == '<=':
                            return ('AGED_INCL', (ent, now, 'due'), True)
                    if atoms[now] == 1 and rest[s] == -1:
                        if nop == '<=':
                            return ('AGED', (ent, now, 'due'), False)
                        if nop == '<':
                            return ('AGED_INCL', (ent, now, 'due'), False)
                if len(rest) == 2 and len(st) == 1 and len(tick) == 1:
                    s, tk = st[0], tick[0]
                    ent = self.elem_entity(unld(s)[1])
                    if atoms[now] == -1 and rest[s] == 1 and rest[tk] == 1:
                        if nop == '<':
                            return ('AGED', (ent, now), True)     # stamp + tick < now
                        if nop == '<=':
                            return ('AGED_INCL', (ent, now), True)
                    if atoms[now] == 1 and rest[s] == -1 and rest[tk] == -1:
                        if nop == '<=':
                            return ('AGED', (ent, now), False)
                        if nop == '<':
                            return ('AGED_INCL', (ent, now), False)
            # ---- comparisons that the representation invariant decides (defensive re-validation in the source)
            ri = self.classify_ri(op, a, b)
            if ri is not None:
                return ri
            # iterator comparisons
            if op in ('!=', '=='):
                for x, y in ((a, b), (b, a)):
                    py = self.part_value(y)
                    if py is not None and isinstance(x, tuple) and x and x[0] == 'adv' and self.part_value(x) is None and isinstance(x[1], int):
                        # std::next(node) == P   <=>   node == std::prev(P)
                        py = (py[0] - x[1], py[1])
                        x = x[2]
                    if py is not None and py[0] == -1:
                        # node != prev(P)
                        return ('IS_LAST_USED', (self.iter_entity(x), py[1]), op == '==')
                    if py is not None and py[0] == 0:
                        return ('AT_PART', (self.iter_entity(x),), op == '==')
                    if isinstance(y, tuple) and y[0] == 'q' and y[1] in ('begin', 'cbegin') and y[2] == self.order:
                        return ('IS_FRONT', (self.iter_entity(x), y[4] or 0), op == '==')
                    if r.kind == 'slotvec' and self.order is not None and is_ld(y) and isinstance(y[2], tuple) and y[2][0] == 'q' \
                            and y[2][1] == 'front' and y[2][2] == self.order and is_ld(x):
                        # slot ids are unique in the slot list (RI): `idx == m_lru_list.front()` <=> the slot's node is the head
                        ex = self.sid_entity(x)
                        if ex.kind in ('FOUND', 'AUXHEAD', 'ATPART', 'BACK', 'RANDPOS'):
                            return ('IS_FRONT', (ex, y[2][4] or 0), op == '==')
                    if isinstance(y, tuple) and y[0] == 'q' and y[1] in ('end', 'cend') and y[2] in self.aux:
                        return ('IT_AT_END', (x, self.aux[y[2]][0]), op == '==')
                    if isinstance(y, tuple) and y[0] == 'q' and y[1] in ('begin', 'cbegin') and y[2] in self.aux:
                        return ('IT_AT_BEGIN', (x, self.aux[y[2]][0]), op == '==')
                    # rr: position != end-1
                    if self.perm is not None and isinstance(y, tuple) and y[0] == 'add' and y[1] == ld0(self.part) and y[2] == -1:
                        if is_ld(x) and x[2][0] == 'fld' and x[2][2] == 'm_open_list_position':
                            return ('IS_LAST_USED', (self.elem_entity(x[2][1]), 0), op == '==')
                        if isinstance(x, tuple) and x[:1] == ('rng',):
                            # the drawn position itself compared with the last in-use position
                            return ('IS_LAST_USED', (Ent('RANDPOS', x[1], 0, ('ld', 0, ('idx', self.perm, x))), 0), op == '==')
                if isinstance(a, tuple) and isinstance(b, tuple) and a[0] == 'lv' and b[0] == 'lv':
                    return ('LV_EQ', (a[1], b[1]), op == '==')
        return ('OTHER', (term,), True)

    def classify_ri(self, op, a, b):
        """VALID_IT / SID_RANGE / BACKPTR_SELF / RNG_RANGE / partition-at-head: comparisons whose outcome follows from RI for bound slots"""
        r = self.r
        containers = {self.index: 'index'}
        if self.order is not None:
            containers[self.order] = 'order'
        for t, (an, ak) in self.aux.items():
            containers[t] = an
        if op in ('==', '!=') and self.part is not None and self.order is not None:
            for x, y in ((a, b), (b, a)):
                # the free/used partition iterator at end(): no free slot left, i.e. the cache is full (size == capacity, RI)
                if x == ld0(self.part) and isinstance(y, tuple) and len(y) > 2 and y[0] == 'q' and y[1] in ('end', 'cend') and y[2] == self.order:
                    return ('FULL', (), op == '==')
        if op in ('==', '!='):
            for x, y in ((a, b), (b, a)):
                # it != ttl.upper_bound(now) with `it` walking the deadline-ordered ttl structure from its head: the node is in the
                # expired prefix (key <= now); equality: the walk has reached the first live node (or the end)
                if isinstance(x, tuple) and x[:1] == ('lv',) and isinstance(y, tuple) and len(y) > 3 and y[0] == 'q' and y[1] == 'upper_bound' \
                        and y[2] in self.aux and self.aux[y[2]][1] == 'ttl' and len(y[3]) == 1 and isinstance(y[3][0], tuple) and y[3][0][:1] == ('now',) \
                        and self.lv_walk_aux_decl(x) == y[2]:
                    return ('SWEEP_GUARD', (x, self.aux[y[2]][0], y[3][0], y), op == '!=')
                # ttl.upper_bound(now) != ttl.begin(): some key is <= now, i.e. the head of the deadline-ordered structure is expired
                # (inclusive); lower_bound(now) is the strict form
                if isinstance(x, tuple) and len(x) > 3 and x[0] == 'q' and x[1] in ('upper_bound', 'lower_bound') and x[2] in self.aux \
                        and self.aux[x[2]][1] == 'ttl' and len(x[3]) == 1 and isinstance(x[3][0], tuple) and x[3][0][:1] == ('now',) \
                        and isinstance(y, tuple) and len(y) > 2 and y[0] == 'q' and y[1] in ('begin', 'cbegin') and y[2] == x[2] \
                        and ((x[4] or 0) == (y[4] or 0) or (x[4] or 0) < 0):
                    # (a bound taken once before the loop - epoch < 0 - stays the first live node while the loop only pops nodes in
                    # front of it: tree iterators are stable, and what the iterations do to the structure is judged by the sweep rules)
                    d = ('ld', 0, ('fld', ('deref', ('q', 'begin', x[2], (), y[4])), 'first'))
                    ent = Ent('AUXHEAD', self.aux[x[2]][0], y[4] or 0, d)
                    return ('EXPIRED' if x[1] == 'upper_bound' else 'EXPIRED_STRICT', (ent, x[3][0], d), op == '!=')
                # std::next(e.m_ttl_position) == ttl.end(): the element's node is the last one (same fact as pos == std::prev(end()))
                if isinstance(x, tuple) and len(x) > 2 and x[0] == 'adv' and x[1] == 1 and is_ld(x[2]) and x[2][2][0] == 'fld' \
                        and r.backptrs.get(x[2][2][2]) in r.aux_kind and isinstance(y, tuple) and y and y[0] == 'q' and y[1] in ('end', 'cend') \
                        and y[2] == THIS(r.backptrs[x[2][2][2]]):
                    return ('IS_AUX_LAST', (self.elem_entity(x[2][2][1]), r.backptrs[x[2][2][2]]), op == '==')
                # stored iterator of an element vs end() of the structure it points into
                if isinstance(y, tuple) and y and y[0] == 'q' and y[1] in ('end', 'cend') and y[2] in containers:
                    tgt = containers[y[2]]
                    if is_ld(x) and x[2][0] == 'fld' and x[2][2] in r.backptrs and (r.backptrs[x[2][2]] == tgt or
                                                                                    (tgt == 'order' and r.backptrs[x[2][2]] == 'order')):
                        ent = self.elem_entity(x[2][1]) if r.kind != 'maplist' or x[2][2] != 'm_keyed_elements_position' else self.node_entity(unld_node(x[2][1]))
                        return ('VALID_IT', (ent, x[2][2]), op == '!=')
                    if tgt == 'order' and isinstance(x, tuple) and x and x[0] == 'lv':
                        return ('LV_AT_ORDER_END', (x[1],), op == '==')
                    if r.kind == 'nodelist' and tgt == 'order' and not (isinstance(x, tuple) and x and x[0] == 'lv'):
                        ent = self.sid_entity(x)
                        if ent.kind not in ('OTHER', 'PARAM', 'LV', 'STALE'):
                            return ('VALID_IT', (ent, 'node'), op == '!=')
                    if isinstance(x, tuple) and x and x[0] == 'q' and x[1] in ('begin', 'cbegin') and x[2] == y[2]:
                        if tgt == 'order':
                            return ('TRUE', (), op == '!=')          # capacity >= 1: the slot list is never empty
                        if tgt == 'index':
                            return ('NONEMPTY', (), op == '!=')
                        return ('AUX_NONEMPTY', (tgt,), op == '!=')
                # the element's node is already the last one of an auxiliary list (a splice to the back would be a no-op)
                if is_ld(x) and x[2][0] == 'fld' and x[2][2] in r.backptrs and r.backptrs[x[2][2]] in r.aux_kind \
                        and isinstance(y, tuple) and y and y[0] == 'adv' and y[1] == -1 and isinstance(y[2], tuple) and y[2][0] == 'q' \
                        and y[2][1] in ('end', 'cend') and y[2][2] == THIS(r.backptrs[x[2][2]]):
                    return ('IS_AUX_LAST', (self.elem_entity(x[2][1]), r.backptrs[x[2][2]]), op == '==')
                # an element's stored position vs the very position it was reached through
                if is_ld(x) and x[2][0] == 'fld' and x[2][2] in r.backptrs:
                    tgt = r.backptrs[x[2][2]]
                    ent = self.elem_entity(x[2][1])
                    if tgt == 'index' and self.is_find(y) and ent.kind == 'FOUND' and ent.arg == y[3][0]:
                        return ('BACKPTR_SELF', (ent, x[2][2]), op == '==')
                    if tgt in r.aux_kind and isinstance(y, tuple) and y and y[0] == 'q' and y[1] in ('begin', 'cbegin') and y[2] == THIS(tgt) \
                            and ent.kind == 'AUXHEAD' and ent.arg == tgt:
                        return ('BACKPTR_SELF', (ent, x[2][2]), op == '==')
        if op in ('<', '>', '<=', '>=') and self.slots is not None:
            for x, y, o in ((a, b, op), (b, a, {'<': '>', '>': '<', '<=': '>=', '>=': '<='}[op])):
                if isinstance(y, tuple) and y and y[0] == 'q' and y[1] == 'size' and y[2] == self.slots and isinstance(x, tuple) and x and x[0] == 'ld':
                    ent = self.sid_entity(x)
                    if ent.kind not in ('OTHER', 'PARAM', 'RAWRNG', 'STALE', 'MAYALIAS', 'RES'):
                        if o == '<':
                            return ('SID_RANGE', (ent,), True)
                        if o == '>=':
                            return ('SID_RANGE', (ent,), False)
        if op in ('<', '>', '<=', '>=') and self.perm is not None and self.part is not None:
            for x, y, o in ((a, b, op), (b, a, {'<': '>', '>': '<', '<=': '>=', '>=': '<='}[op])):
                if isinstance(x, tuple) and x and x[0] == 'rng' and y == ld0(self.part):
                    if o == '<':
                        return ('RNG_RANGE', (x[1],), True)
                    if o == '>=':
                        return ('RNG_RANGE', (x[1],), False)
        return None

    def iter_entity(self, it):
        """entity whose order-list node the iterator value `it` denotes"""
        r = self.r
        if r.kind == 'nodelist':
            return self.sid_entity(it)
        if is_ld(it) and it[2][0] == 'fld' and r.backptrs.get(it[2][2]) == 'order':
            if it[1] != 0:
                return Ent('STALE', None, it[1], it)
            return self.elem_entity(it[2][1])
        p = self.part_value(it)
        if p is not None:
            return Ent('ATPART', p[0], p[1], it)
        return self.sid_entity(it)

    def is_capacity(self, x):
        r = self.r
        if isinstance(x, tuple) and x[0] == 'q' and x[1] in ('size', 'capacity'):
            return x[2] in (self.slots, self.order, self.perm) and x[2] is not None
        if is_ld(x) and isinstance(x[2], tuple) and len(x[2]) == 3 and x[2][0] == 'fld' and x[2][1] == ('this',) \
                and x[2][2] in getattr(r, 'capacity_copies', ()):
            return True       # a const member the constructor set to its capacity argument
        return False

    def is_deadline_read(self, x):
        dl = getattr(self.r, 'deadline', None)
        if dl is None:
            return False
        if is_ld(x) and x[2][0] == 'fld' and x[2][2] == dl:
            return True
        # tlru: key of the ttl multimap node  (*it).first
        if is_ld(x) and x[2][0] == 'fld' and x[2][2] == 'first' and x[2][1][0] == 'deref':
            it = x[2][1][1]
            if isinstance(it, tuple) and it[0] == 'q' and it[2] in self.aux and self.aux[it[2]][1] == 'ttl':
                return True
        return False

    def deadline_entity(self, x):
        loc = x[2]
        if loc[2] == 'first':
            it = loc[1][1]
            return Ent('AUXHEAD', self.aux[it[2]][0], it[4] or 0, x) if it[1] in ('begin', 'cbegin') else Ent('AUXNODE', None, 0, x)
        return self.elem_entity(loc[1])

    def is_stamp_read(self, x):
        st = getattr(self.r, 'stamp', None)
        return st is not None and is_ld(x) and x[2][0] == 'fld' and x[2][2] == st

    def is_tick(self, x):
        tk = getattr(self.r, 'tick', None)
        return tk is not None and is_ld(x) and x[2] == THIS(tk)


def unld_node(loc):
    """*it for a node location: ('deref', it) -> it"""
    if isinstance(loc, tuple) and loc[0] == 'deref':
        return loc[1]
    return loc


# ---------------------------------------------------------------------------------------------- effects

def allow_bits(t):
    """the set of allow bits a constant expression over the enumerators denotes (cast(allow::insert) | cast(allow::update) ...), or None"""
    if isinstance(t, tuple) and len(t) == 3 and t[0] == 'cast':
        return allow_bits(t[2])
    if isinstance(t, tuple) and len(t) == 3 and t[0] == 'enum' and 'allow' in str(t[1]):
        return {'insert': frozenset(('insert',)), 'update': frozenset(('update',)),
                'insert_or_update': frozenset(('insert', 'update'))}.get(t[2])
    if isinstance(t, tuple) and len(t) == 4 and t[0] == 'bin' and t[1] == '|':
        a, b = allow_bits(t[2]), allow_bits(t[3])
        return (a | b) if a and b else None
    return None


ALLOW_TABLE = {'insert': (True, False), 'update': (False, True), 'insert_or_update': (True, True)}   # (INS_OK, UPD_OK)


class Effect:
    def __init__(self, kind, site, **kw):
        self.kind = kind
        self.site = site
        self.__dict__.update(kw)

    def __repr__(self):
        d = {k: v for k, v in self.__dict__.items() if k not in ('kind', 'site', 'raw')}
        parts = []
        for k, v in d.items():
            parts.append('%s=%s' % (k, show(v) if isinstance(v, tuple) and v and isinstance(v[0], str) else v))
        return '%s(%s)' % (self.kind, ', '.join(parts))


class Segment:
    """one method-level path or loop iteration, lifted"""

    def __init__(self, lifter, path, era0=0, entry=None, loop=None, parent=None):
        self.L = lifter
        self.path = path
        self.era0 = era0
        self.entry = entry
        self.loop = loop
        self.parent = parent
        # each loop on the way havocs the state once (era + 1): keep 'era 0' = the era current at the event
        self.events = []
        cur = era0
        inv = loop_invariant_fields(loop) if loop is not None else None
        for e in path.trace:
            if e[0] == 'loop':
                self.events.append(e)
                cur += 0 if getattr(e[1], 'pure', False) else 1      # a loop that only changes its own locals starts no new era
            else:
                ev = tuple(rel(x, cur) if isinstance(x, tuple) else x for x in e)
                if inv is not None and e[0] in ('cond', 'lwr', 'wr', 'call', 'use', 'ret'):
                    ev = tuple(unstale(x, inv) if isinstance(x, tuple) else x for x in ev)
                self.events.append(ev)
        self.final_era = cur
        self.ret = rel(path.ret, cur) if path.ret is not None else None
        self.status = path.status
        self.conds = []       # (kind, args, truth, site, raw)
        self.effects = []
        self.loops = []       # (Loop, [Segment])
        self.loop_exits = {}  # id(Loop) -> [Segment] condition-false exits
        self.order = []       # interleaved ('cond', i) / ('eff', i) / ('loop', i) for ordering queries
        self.out_results = set(parent.out_results) if parent is not None else set()
        self._lift()
        self._alias_pass()
        self._aux_alias_pass()
        self._moved_dead_pass()
        if parent is None and loop is None:
            self._sizediff_pass()

    def _moved_dead_pass(self):
        """`std::move(e.m_value)` out of an entry that this same path removes from the index (releasing / handing out the value of a
        victim or of an erased entry): the moved-from slot is free storage, nothing reads it before the next insert overwrites it"""
        mv = [e for e in self.effects if e.kind == 'VAL' and isinstance(e.val, tuple) and e.val and e.val[0] == 'moved']
        if not mv:
            return
        from rules_seq import same_ent
        gone = [u.ent for u in self.effects if u.kind == 'UNBIND' and isinstance(u.ent, Ent)]
        for e in mv:
            if isinstance(e.ent, Ent) and any(same_ent(e.ent, g) for g in gone):
                e.kind = 'INERT_WR'
                continue
            i = self.effects.index(e)
            if any(w.kind == 'VAL' and w is not e and getattr(w, 'loc', None) == e.loc for w in self.effects[i + 1:]):
                e.kind = 'INERT_WR'         # the old value is moved out and the slot is given its new value on the same path

    def countdown_guard(self, lp, segs, exits):
        """`for (size_t visited = 0, in_use = m_used_size; visited < in_use; ++visited) { ...removes one entry or leaves... }`: every
        completed iteration steps the local counter once and removes exactly one entry, so `in_use - visited` is the number of entries
        still stored: the guard `visited < in_use` is the non-emptiness test (and its failure: nothing is left).  The snapshot has to be
        the element counter as it was when the loop was entered; comparing with the live member is a different loop."""
        L = self.L
        if L.counter is None:
            return segs, exits
        guard = None
        for sg in segs + exits:
            for c in sg.conds:
                raw = c[4]
                if c[0] == 'OTHER' and isinstance(raw, tuple) and len(raw) == 4 and raw[0] == 'cmp' and raw[1] in ('<', '>', '!='):
                    a, b = (raw[2], raw[3]) if raw[1] != '>' else (raw[3], raw[2])
                    if isinstance(a, tuple) and a[:1] == ('lv',) and is_ld(b) and b[2] == L.counter and b[1] < 0:
                        guard = (a[1], b)
        if guard is None:
            return segs, exits
        name, snap = guard
        # the counter starts at 0 and the snapshot is taken right before the loop
        start = None
        for e in self.effects:
            if e.kind == 'LOCAL' and isinstance(e.loc, tuple) and len(e.loc) > 1 and e.loc[1] == name:
                start = e.val
        if start != ('int', 0) or snap[1] != -1:
            return segs, exits
        for sg in segs:
            steps = [e for e in sg.effects if e.kind == 'LOCAL' and isinstance(e.loc, tuple) and len(e.loc) > 1 and e.loc[1] == name]
            cnts = [e for e in sg.effects if e.kind == 'CNT']
            if sg.loops:
                return segs, exits
            # the local counter is stepped exactly as often as the element counter drops (once, or not at all) in every iteration
            if len(steps) > 1 or len(cnts) > 1 or len(steps) != len(cnts):
                return segs, exits
            if steps and not (isinstance(steps[0].val, tuple) and steps[0].val[:1] == ('add',) and steps[0].val[2] == 1):
                return segs, exits
            if cnts and cnts[0].delta != -1:
                return segs, exits
            if sg.status != 'continue' and (steps or cnts or sg.state_effects()):
                return segs, exits

        def is_guard(c):
            raw = c[4]
            if not (c[0] == 'OTHER' and isinstance(raw, tuple) and len(raw) == 4 and raw[0] == 'cmp'):
                return None
            a, b = (raw[2], raw[3]) if raw[1] != '>' else (raw[3], raw[2])
            if isinstance(a, tuple) and a[:2] == ('lv', name) and b == snap and raw[1] in ('<', '>', '!='):
                return bool(c[5])      # truth of `visited < in_use`
            return None
        for sg in segs + exits:
            for j, c in enumerate(sg.conds):
                g = is_guard(c)
                if g is not None:
                    sg.conds[j] = ('NONEMPTY', (), g) + tuple(c[3:])
        return segs, exits

    def scan_bound_guard(self, raw):
        """`it != B` where `it` walks the ttl structure from its head and B is where an effect-free scan of that structure stopped: the
        first node that is not expired by the call's clock sample (or the end) -> SWEEP_GUARD like `it != upper_bound(now)`"""
        L = self.L
        if not (isinstance(raw, tuple) and len(raw) == 4 and raw[0] == 'cmp' and raw[1] in ('!=', '==')):
            return None
        for x, y in ((raw[2], raw[3]), (raw[3], raw[2])):
            if not (isinstance(x, tuple) and isinstance(y, tuple) and x[:1] == ('lv',) and y[:1] == ('lv',) and len(y) > 3 and y[3] == 'post'):
                continue
            aux = L.lv_walk_aux_decl(x)
            if aux is None or L.aux[aux][1] != 'ttl':
                continue
            p = self.parent if self.loop is not None else self
            scan = None
            while p is not None and scan is None:
                scan = next(((lp, segs) for lp, segs in p.loops if lp.id == y[2]), None)
                owner = p
                p = p.parent
            if scan is None:
                continue
            lp, segs = scan
            start = None
            for e in owner.effects:
                if e.kind == 'LOCAL' and isinstance(e.loc, tuple) and len(e.loc) > 1 and e.loc[1] == y[1] and e.how == 'decl':
                    start = e.val
            if not (isinstance(start, tuple) and len(start) > 2 and start[0] == 'q' and start[1] in ('begin', 'cbegin') and start[2] == aux):
                continue
            now = None
            ok = True
            for sg in segs:
                if sg.state_effects() or sg.loops:
                    ok = False
                    break
                ex = [c for c in sg.conds if c[0] == 'EXPIRED' and isinstance(c[1][0], Ent) and c[1][0].kind == 'AUXNODE']
                steps = [e for e in sg.effects if e.kind == 'LOCAL' and isinstance(e.loc, tuple) and len(e.loc) > 1 and e.loc[1] == y[1]]
                if sg.status == 'continue':
                    if len(ex) != 1 or ex[0][2] is not True or len(steps) != 1 or not (isinstance(steps[0].val, tuple) and steps[0].val[:2] == ('adv', 1)):
                        ok = False
                        break
                    now = ex[0][1][1]
                elif sg.status == 'break':
                    if len(ex) != 1 or ex[0][2] is not False or steps:
                        ok = False
                        break
                else:
                    ok = False
                    break
            exits = owner.loop_exits.get(id(lp), [])
            if not ok or now is None or not all(any(c[0] == 'IT_AT_END' and c[2] is True for c in sg.conds) for sg in exits):
                continue
            return ('SWEEP_GUARD', (x, L.aux[aux][0], now, y), raw[1] == '!=')
        return None

    def sweep_as_head(self, lp, segs, exits):
        """`for (it = ttl.begin(); it != B; ) { idx = it->second; ++it; erase entry idx; }` with B the end of the expired prefix: every
        iteration removes the node it stands on and steps once, so the node visited is always the current head of the ttl structure.
        When that invariant is established the iteration is renamed to what it is - `while (head expired) erase(head)` - and every
        rule written for the head form applies.  Otherwise nothing is renamed (and the rules judge the walk as it stands)."""
        guards = [c for sg in segs + exits for c in sg.conds if c[0] == 'SWEEP_GUARD']
        if not guards:
            return segs, exits
        lv, auxname, now, bound = guards[0][1]
        name = lv[1]
        aux = THIS(auxname)
        L = self.L
        # the walker starts at the head, the boundary was taken from the same (unchanged) structure
        start = None
        for e in self.effects:
            if e.kind == 'LOCAL' and isinstance(e.loc, tuple) and len(e.loc) > 1 and e.loc[1] == name:
                start = e.val
            if getattr(e, 'aux', None) == auxname and e.kind.startswith('AUX_'):
                return segs, exits
        if not (isinstance(start, tuple) and len(start) > 2 and start[0] == 'q' and start[1] in ('begin', 'cbegin') and start[2] == aux):
            return segs, exits
        for sg in segs:
            g = [c for c in sg.conds if c[0] == 'SWEEP_GUARD']
            if len(g) != 1 or g[0][1][0][1] != name or sg.loops:
                return segs, exits
            if sg.status != 'continue' or g[0][2] is not True:
                if sg.state_effects():
                    return segs, exits
                continue
            steps = [e for e in sg.effects if e.kind == 'LOCAL' and isinstance(e.loc, tuple) and len(e.loc) > 1 and e.loc[1] == name]
            if len(steps) != 1 or not (isinstance(steps[0].val, tuple) and len(steps[0].val) > 2 and steps[0].val[0] == 'adv'
                                       and steps[0].val[1] == 1 and steps[0].val[2][:2] == ('lv', name)):
                return segs, exits
            dels = [e for e in sg.effects if getattr(e, 'aux', None) == auxname and e.kind.startswith('AUX_')]
            if len(dels) != 1 or dels[0].kind != 'AUX_DEL' or not (isinstance(dels[0].ent, Ent) and dels[0].ent.kind == 'AUXNODE'
                                                                   and getattr(dels[0].ent, 'walker', None) == name):
                return segs, exits
            # the iterator leaves the node before the node is erased (erasing first would invalidate it)
            pos_step = next((p for p, (k, i) in enumerate(sg.order) if k == 'eff' and sg.effects[i] is steps[0]), None)
            pos_del = next((p for p, (k, i) in enumerate(sg.order) if k == 'eff' and sg.effects[i] is dels[0]), None)
            if pos_step is None or pos_del is None or pos_step > pos_del:
                return segs, exits

        def ren(x):
            if isinstance(x, Ent) and x.kind == 'AUXNODE' and getattr(x, 'walker', None) == name:
                return Ent('AUXHEAD', auxname, 0, x.term)
            return x
        for sg in segs + exits:
            for e in sg.effects:
                if isinstance(getattr(e, 'ent', None), Ent):
                    e.ent = ren(e.ent)
            for j, c in enumerate(sg.conds):
                if c[0] == 'SWEEP_GUARD':
                    if c[2] is not True:
                        # the walk reached the end of the expired prefix while standing on the head: the head (if any) is live
                        d = ('ld', 0, ('fld', ('deref', ('q', 'begin', aux, (), 0)), 'first'))
                        sg.conds[j] = ('EXPIRED', (Ent('AUXHEAD', auxname, 0, d), now, d), False) + tuple(c[3:])
                    else:
                        sg.conds[j] = ('TRUE', (), True) + tuple(c[3:])      # replaced by the EXPIRED / NONEMPTY facts derived from it
                    continue
                args = tuple(ren(a) for a in c[1])
                sg.conds[j] = (c[0], args) + tuple(c[2:])
        L.walkers[(name, lv[2])] = auxname
        return segs, exits

    def names_back(self, ent):
        """does this entity denote `back()` of the slot list as it was at entry?  BACK itself, or - a full cache has no free slot, the
        partition is end() - the node in front of the partition (`*std::prev(m_lru_end)`), provided that iterator was taken (first
        dereferenced / compared / passed on) before the path moved the partition or re-linked a node"""
        if not isinstance(ent, Ent):
            return False
        if ent.kind == 'BACK':
            return (ent.epoch or 0) == 0
        if not (ent.kind == 'ATPART' and ent.arg == -1 and (ent.epoch or 0) == 0):
            return False
        if self.L.part is None or self.L.order is None or self.L.r.kind != 'slotvec':
            return False
        full = next((c for c in self.conds if c[0] == 'FULL'), None)
        if full is None or full[2] is not True:
            return False
        first_change = next((p for p, (k, i) in enumerate(self.order) if k == 'eff' and (
            self.effects[i].kind in ('PART', 'MOVE', 'ORDER_OP') or (self.effects[i].kind == 'CNT' and getattr(self.effects[i], 'also_part', False)))),
            len(self.order))

        def contains(t, it, depth=0):
            if t == it:
                return True
            return isinstance(t, tuple) and depth < 10 and any(contains(x, it, depth + 1) for x in t if isinstance(x, tuple))
        term = getattr(ent, 'term', None)
        it = None
        for x in subterms(term) if isinstance(term, tuple) else []:
            if isinstance(x, tuple) and len(x) > 2 and x[0] == 'adv' and x[1] == -1 and x[2] == ld0(self.L.part):
                it = x
                break
        if it is None:
            return False
        for p, (k, i) in enumerate(self.order[:first_change]):
            if k == 'use' and contains(i, it):
                return True
            if k == 'cond' and contains(self.conds[i][4], it):
                return True
            if k == 'eff' and any(contains(v, it) for v in self.effects[i].__dict__.values() if isinstance(v, tuple)):
                return True
        return False

    def _sizediff_pass(self):
        """`const auto before = m_used_size; <loop> return before - m_used_size;` (or the size() of the key index / an auxiliary
        structure): the returned count is the number of entries the loop(s) in between removed.  It is re-expressed as the per-item
        tally every rule knows: a synthetic counter that starts at 0 where `before` is sampled and is stepped once per unit by which
        an iteration shrinks the measured structure.  Anything else that changes the structure between the two samples leaves the
        return value as it is (and the rules report it)."""
        r = self.ret
        if not (isinstance(r, tuple) and len(r) == 4 and r[0] == 'bin' and r[1] == '-'):
            return
        L = self.L

        def measure(t):
            if is_ld(t) and L.counter is not None and t[2] == L.counter:
                return ('cnt', None), t[1]
            if isinstance(t, tuple) and len(t) > 4 and t[0] == 'q' and t[1] == 'size' and not t[3]:
                if t[2] == L.index:
                    return ('index', None), (t[4] or 0) // 1000
                if t[2] in L.aux:
                    return ('aux', L.aux[t[2]][0]), (t[4] or 0) // 1000
            return None
        ma, mb = measure(r[2]), measure(r[3])
        if ma is None or mb is None or ma[0] != mb[0] or not (ma[1] < mb[1] == 0):
            return
        what = ma[0]
        # where `before` was sampled: the local whose declared value is the first operand
        pos_a = None
        for pos, (k, i) in enumerate(self.order):
            if k == 'eff' and self.effects[i].kind == 'LOCAL' and getattr(self.effects[i], 'how', '') == 'decl':
                v = self.effects[i].val
                m2 = measure(v)
                if m2 is not None and m2[0] == what:
                    pos_a = pos
        if pos_a is None:
            return

        def shrink(seg):
            d = 0
            for e in seg.effects:
                if what[0] == 'cnt' and e.kind == 'CNT':
                    if e.delta is None:
                        return None
                    d -= e.delta
                elif what[0] == 'index':
                    if e.kind == 'UNBIND':
                        d += 1
                    elif e.kind == 'BIND':
                        d -= 1
                    elif e.kind == 'INDEX_OP':
                        return None
                elif what[0] == 'aux' and getattr(e, 'aux', None) == what[1]:
                    if e.kind == 'AUX_DEL':
                        d += 1
                    elif e.kind == 'AUX_ADD':
                        d -= 1
                    elif e.kind in ('AUX_ERASE_RANGE', 'AUX_OP'):
                        return None
            if seg.loops:
                return None
            return d
        loops_after = []
        for pos, (k, i) in enumerate(self.order):
            if pos <= pos_a:
                continue
            if k == 'eff':
                e = self.effects[i]
                if (what[0] == 'cnt' and e.kind == 'CNT') or (what[0] == 'index' and e.kind in ('BIND', 'UNBIND', 'INDEX_OP')) or \
                        (what[0] == 'aux' and getattr(e, 'aux', None) == what[1] and e.kind.startswith('AUX_')):
                    return
            elif k == 'loop':
                loops_after.append(i)
        if len(loops_after) != 1 or -ma[1] != 1:
            return        # exactly one loop lies between the two samples: what it removes is what the difference counts
        plan = []
        for i in loops_after:
            lp, segs = self.loops[i]
            for sg in segs:
                d = shrink(sg)
                if d is None or d < 0:
                    return
                plan.append((sg, d))
        name = '$removed'
        lid = self.loops[loops_after[-1]][0].id
        self.effects.append(Effect('LOCAL', self.effects[self.order[pos_a][1]].site, loc=('var', name), val=('int', 0), how='decl'))
        self.order.insert(pos_a + 1, ('eff', len(self.effects) - 1))
        for sg, d in plan:
            for _ in range(d):
                sg.effects.append(Effect('LOCAL', None, loc=('var', name), val=('add', ('lv', name, sg.loop.id if sg.loop is not None else lid, 'iter', None), 1),
                                         how='+='))
                sg.order.append(('eff', len(sg.effects) - 1))
        self.ret_raw = self.ret
        self.ret = ('lv', name, lid, 'post', None)

    def _aux_alias_pass(self):
        """ut_map / ut_set: after `ttl_list.splice(end(), ttl_list, node_of(E))` the node reached as back() / std::prev(end()) is E's node"""
        r = self.L.r
        if r.kind != 'maplist':
            return
        at_end = {}
        for e in self.effects:
            if e.kind == 'AUX_MOVE' and isinstance(e.dest, tuple) and e.dest and e.dest[0] == 'q' and e.dest[1] in ('end', 'cend') \
                    and isinstance(e.ent, Ent) and e.ent.kind not in ('OTHER', 'STALE'):
                at_end[e.aux] = e.ent
                continue
            if e.kind in ('AUX_ADD', 'AUX_DEL', 'AUX_ERASE_RANGE', 'AUX_OP'):
                at_end.pop(getattr(e, 'aux', None), None)
                continue
            ent = getattr(e, 'ent', None)
            if isinstance(ent, Ent) and ent.kind == 'FROMEND' and ent.arg == -1 and len(at_end) == 1:
                owner = next(iter(at_end.values()))
                e.ent = Ent('TTLOF', owner.key(), 0, ent.term)

    def _alias_pass(self):
        """two names for one list node (an iterator taken before a splice and `back()` / `*rbegin()` / `std::prev(end())` taken after it)
        are one entity: the list-position domain resolves both to the node they denote; later names are rewritten to the first"""
        if self.L.order is None or not any(e.kind == 'MOVE' for e in self.effects):
            return
        ents = [e.ent for e in self.effects if isinstance(getattr(e, 'ent', None), Ent)]
        if len(set(x.key() for x in ents)) < 2:
            return
        try:
            from pos import PosSim
            sim = PosSim(self, self.L.r)
            sim.run()
        except Exception:
            return
        if sim.unknown or getattr(sim, 'infeasible', False):
            return
        rep = {}
        for e in self.effects:
            ent = getattr(e, 'ent', None)
            if not isinstance(ent, Ent) or ent.kind in ('OTHER', 'STALE', 'MAYALIAS'):
                continue
            n = sim.memo_node(ent.term)
            if n is None:
                continue
            first = rep.setdefault(id(n), ent)
            if first.key() != ent.key():
                e.ent = Ent(first.kind, first.arg, first.epoch, ent.term)
        for i, c in enumerate(self.conds):
            args = list(c[1])
            changed = False
            for j, a in enumerate(args):
                if isinstance(a, Ent) and a.kind not in ('OTHER', 'STALE', 'MAYALIAS'):
                    n = sim.memo_node(a.term)
                    if n is not None and id(n) in rep and rep[id(n)].key() != a.key():
                        f = rep[id(n)]
                        args[j] = Ent(f.kind, f.arg, f.epoch, a.term)
                        changed = True
            if changed:
                self.conds[i] = (c[0], tuple(args)) + tuple(c[2:])

    def _lift(self):
        L = self.L
        r = L.r
        prev_seg = L.cur_seg
        L.cur_seg = self
        try:
            self._lift_events()
        finally:
            L.cur_seg = prev_seg

    def _lift_events(self):
        L = self.L
        r = L.r
        if self.parent is not None:
            # decisions about the call's own parameters taken before the loop (const bool touch = peek == peek::no; ...) hold in every
            # iteration: they belong to the iteration's valuation as they would had the test been written inside the loop
            own = set()
            for c in self.parent.conds:
                if c[0] in ('PEEK', 'UPD_OK', 'INS_OK') and c[0] not in own:
                    own.add(c[0])
                    self.conds.append(c)
        for e in self.events:
            k = e[0]
            if k == 'cond':
                kind, args, pol = L.classify(e[1])
                if kind == 'LV_EQ':
                    up = self.scan_bound_guard(e[1])
                    if up is not None:
                        kind, args, pol = up
                truth = (e[2] == pol)
                self.conds.append((kind, args, truth, e[3], e[1], e[2]))
                self.order.append(('cond', len(self.conds) - 1))
                if kind == 'SWEEP_GUARD' and truth:
                    # the visited node is expired by the call's clock sample, and there is at least one entry
                    ent = Ent('AUXNODE', args[1], 0, ('ld', 0, ('fld', ('deref', args[0]), 'second')))
                    ent.walker = args[0][1]
                    self.conds.append(('EXPIRED', (ent, args[2], ('fld', ('deref', args[0]), 'first')), True, e[3], e[1], e[2]))
                    self.order.append(('cond', len(self.conds) - 1))
                    self.conds.append(('NONEMPTY', (), True, e[3], e[1], e[2]))
                    self.order.append(('cond', len(self.conds) - 1))
                if kind in ('EXPIRED', 'EXPIRED_STRICT') and truth and isinstance(e[1], tuple) and len(e[1]) == 4 and e[1][0] == 'cmp' \
                        and e[1][1] in ('==', '!=') and any(isinstance(x, tuple) and len(x) > 1 and x[0] == 'q' and x[1] in ('upper_bound', 'lower_bound')
                                                            for x in e[1][2:4]):
                    # begin() != upper_bound(now): some key is <= now, so there is an entry at all
                    self.conds.append(('NONEMPTY', (), True, e[3], e[1], e[2]))
                    self.order.append(('cond', len(self.conds) - 1))
                if kind == 'ALLOW_IS' and not truth:
                    # every mode ruled out (the default branch of a switch over the mode / its two bits): neither bit is set
                    ruled = set(c[1][1] for c in self.conds if c[0] == 'ALLOW_IS' and c[2] is False and c[1][0] == args[0])
                    if ruled >= set(ALLOW_TABLE) and not any(c[0] in ('INS_OK', 'UPD_OK') for c in self.conds):
                        for k2 in ('INS_OK', 'UPD_OK'):
                            self.conds.append((k2, (args[0],), False, e[3], ('pred', 'insert_allowed' if k2 == 'INS_OK' else 'update_allowed', args[0]), False))
                            self.order.append(('cond', len(self.conds) - 1))
                if kind == 'ALLOW_IS' and truth:
                    ins, upd = ALLOW_TABLE[args[1]]
                    for k2, v2 in (('INS_OK', ins), ('UPD_OK', upd)):
                        self.conds.append((k2, (args[0],), v2, e[3], ('pred', 'insert_allowed' if k2 == 'INS_OK' else 'update_allowed', args[0]), v2))
                        self.order.append(('cond', len(self.conds) - 1))
            elif k == 'loop':
                lp = e[1]
                segs = []
                for it in lp.iters:
                    era = next((x[2] for x in it.trace if x[0] == 'iter'), 0)
                    segs.append(Segment(L, it, era, self.entry, lp, self))
                exits = []
                for cp in lp.cond_paths:
                    era = next((x[2] for x in cp.trace if x[0] == 'iter'), 0)
                    exits.append(Segment(L, cp, era, self.entry, lp, self))
                # iterations / exits that contradict the representation invariant (dead defensive branches) do not exist
                segs = [x for x in segs if feasible(x)[0]]
                exits = [x for x in exits if feasible(x)[0]]
                segs, exits = flag_controlled(segs, exits)
                segs, exits = self.sweep_as_head(lp, segs, exits)
                segs, exits = self.countdown_guard(lp, segs, exits)
                self.loops.append((lp, segs))
                self.loop_exits[id(lp)] = exits
                self.order.append(('loop', len(self.loops) - 1))
            elif k == 'use':
                if e[2] == 'compare' and isinstance(e[1], tuple) and e[1] and e[1][0] == 'q' and e[1][1] in ('begin', 'cbegin', 'end', 'cend'):
                    continue      # begin() / end() merely compared with something: no node is singled out
                self.order.append(('use', e[1]))
            else:
                eff = self.effect_of(e)
                if eff is not None:
                    self.effects.append(eff)
                    self.order.append(('eff', len(self.effects) - 1))

    def effect_of(self, e):
        L = self.L
        r = L.r
        k = e[0]
        if k == 'call':
            recv, name, args, res, site = e[1], e[2], e[3], e[4], e[5]
            if recv == L.index:
                if name in ('emplace', 'insert', 'try_emplace', 'insert_or_assign', 'operator[]', 'emplace_hint'):
                    args = list(args)
                    if name == 'emplace_hint' or (name in ('insert', 'try_emplace', 'insert_or_assign') and len(args) == 3) or \
                            (name == 'insert' and len(args) == 2 and isinstance(args[1], tuple) and args[1] and args[1][0] in ('pair', 'ctor')):
                        args = args[1:]      # leading hint
                    if len(args) == 1 and isinstance(args[0], tuple) and args[0]:
                        if args[0][0] == 'pair' and len(args[0]) == 3:
                            args = [args[0][1], args[0][2]]
                        elif args[0][0] == 'ctor' and len(args[0]) > 2 and len(args[0][2]) == 2:
                            args = list(args[0][2])
                    args = tuple(args)
                    sid = args[1] if len(args) > 1 else None
                    ent = L.sid_entity(sid) if (sid is not None and r.kind != 'maplist') else Ent('NEW', res[1], 0, res)
                    return Effect('BIND', site, key=args[0] if args else None, ent=ent, sid=sid, res=res, via=name)
                if name == 'erase':
                    a = args[0] if args else None
                    return Effect('UNBIND', site, ent=self.unbind_entity(a), arg=a, nargs=len(args))
                return Effect('INDEX_OP', site, name=name, args=args)
            if recv in L.aux:
                an, ak = L.aux[recv]
                if name in ('emplace', 'insert', 'emplace_hint', 'emplace_back', 'push_back', 'emplace_front', 'push_front'):
                    # one canonical form for the many spellings of "add the node (key, slot)":
                    #   tree:  emplace(k, s) = insert(pair{k, s}) = insert(make_pair(k, s)) = emplace_hint(h, k, s) = insert(h, pair)
                    #          (a hint only chooses the place among equal keys, which no property distinguishes)
                    #   list:  emplace_back(k, s) = push_back(node{k, s}) = emplace(end(), k, s) = insert(end(), node{k, s})
                    how, a = name, list(args)
                    tree = r.field_tc(an) in ('multimap', 'map')
                    def is_iter_of(t, which=None):
                        return (isinstance(t, tuple) and t and t[0] == 'q' and t[2] == recv and t[1] in ('end', 'cend', 'begin', 'cbegin')
                                and (which is None or t[1] in which))
                    if tree:
                        if name == 'emplace_hint' or (name == 'insert' and len(a) == 2):
                            a = a[1:]
                        how = 'emplace'
                    else:
                        if name in ('emplace', 'insert') and a:
                            if is_iter_of(a[0], ('end', 'cend')):
                                how, a = 'emplace_back', a[1:]
                            elif is_iter_of(a[0], ('begin', 'cbegin')):
                                how, a = 'emplace_front', a[1:]
                        elif name == 'push_back':
                            how = 'emplace_back'
                        elif name == 'push_front':
                            how = 'emplace_front'
                    if len(a) == 1 and isinstance(a[0], tuple) and a[0]:
                        if a[0][0] == 'pair' and len(a[0]) == 3:
                            a = [a[0][1], a[0][2]]
                        elif a[0][0] == 'ctor' and len(a[0]) > 2 and len(a[0][2]) == 2:
                            a = list(a[0][2])
                    if len(a) >= 2:
                        return Effect('AUX_ADD', site, aux=an, key=a[0], ent=L.sid_entity(a[1]), sid=a[1], res=res, how=how)
                    return Effect('AUX_ADD', site, aux=an, key=None, ent=L.sid_entity(a[0]) if a else None, sid=a[0] if a else None, res=res, how=how)
                if name == 'erase':
                    if len(args) == 2:
                        return Effect('AUX_ERASE_RANGE', site, aux=an, first=args[0], last=args[1])
                    a = args[0] if args else None
                    return Effect('AUX_DEL', site, aux=an, ent=self.backptr_owner(a), arg=a)
                if name in ('pop_front', 'pop_back'):
                    ent = Ent('FRONT', None, 0, None) if name == 'pop_front' else Ent('FROMEND', -1, 0, None)
                    return Effect('AUX_DEL', site, aux=an, ent=ent, arg=None, how=name)
                if name == 'splice':
                    return Effect('AUX_MOVE', site, aux=an, dest=args[0], node=args[2] if len(args) > 2 else None,
                                  ent=self.backptr_owner(args[2]) if len(args) > 2 else None, nargs=len(args))
                return Effect('AUX_OP', site, aux=an, name=name, args=args)
            if recv == L.order:
                if name == 'splice':
                    node = args[2] if len(args) > 2 else None
                    return Effect('MOVE', site, dest=args[0], node=node, ent=L.iter_entity(node) if node is not None else None,
                                  nargs=len(args), src=args[1] if len(args) > 1 else None, last=args[3] if len(args) > 3 else None)
                return Effect('ORDER_OP', site, name=name, args=args)
            if L.slots is not None and recv == L.slots or L.perm is not None and recv == L.perm:
                return Effect('STORAGE_OP', site, recv=recv, name=name, args=args)
            from symex import root_of
            rt = root_of(recv)
            if rt[0] in ('local', 'param'):
                if name in ('emplace_back', 'push_back') and len(args) == 1 and isinstance(args[0], tuple) and args[0]:
                    # push_back(std::make_pair(k, r)) / push_back(pair{k, r}) == emplace_back(k, r)
                    a = args[0]
                    if a[0] == 'pair' and len(a) == 3:
                        args = (a[1], a[2])
                    elif a[0] == 'ctor' and len(a) > 2 and len(a[2]) == 2 and 'pair' in str(a[1]):
                        args = tuple(a[2])
                if name in ('emplace_back', 'emplace') and len(args) == 3 and args[0] == ('global', 'piecewise_construct') and \
                        all(isinstance(x, tuple) and x and x[0] == 'fncall' and x[1] == 'forward_as_tuple' and len(x[2]) == 1 for x in args[1:]):
                    args = (args[1][2][0], args[2][2][0])     # piecewise construction of a pair from one argument each
                if isinstance(res, tuple) and res and res[0] == 'res':
                    self.out_results.add(res[1])
                return Effect('OUT_CALL', site, recv=recv, name=name, args=args, res=res)
            if rt[0] == 'field' and rt[1] in getattr(r, 'inert', ()):
                return Effect('INERT_CALL', site, recv=recv, name=name, args=args)
            return Effect('OTHER_CALL', site, recv=recv, name=name, args=args)
        if k == 'atomic':
            from symex import root_of
            rt = root_of(e[1])
            if rt[0] == 'field' and rt[1] in getattr(r, 'inert', ()):
                return Effect('INERT_CALL', e[5], recv=e[1], name=e[2], args=e[3])
            if rt[0] in ('local', 'param'):
                return Effect('OUT_CALL', e[5], recv=e[1], name=e[2], args=e[3])
            def counter_value(t):
                # the counter as it stands now: its entry value, or that +/- what the path has already added / removed
                if isinstance(t, tuple) and len(t) == 3 and t[0] == 'add' and isinstance(t[2], int):
                    t = t[1]
                return is_ld(t) and t[2] == L.counter
            if e[6] == 'W' and e[2] in ('store', 'operator=') and e[3] and L.counter is not None and counter_value(e[3][0]):
                # publishing the element counter into an atomic mirror (for lock-free observers): a copy, not state of its own; whether
                # observers may rely on it is the publication-discipline question the observer rules leave open (exit 2)
                return Effect('INERT_CALL', e[5], recv=e[1], name=e[2], args=e[3])
            return Effect('OTHER_CALL', e[5], recv=e[1], name=e[2], args=e[3]) if e[6] == 'W' else None
        if k == 'wr':
            loc, val, site = e[1], e[2], e[3]
            how = e[4] if len(e) > 4 else '='
            if L.counter is not None and loc == L.counter and L.counter == L.part:
                # rr: counter doubles as partition index
                d = self.delta(val, loc)
                return Effect('CNT', site, delta=d, val=val, also_part=True)
            if L.counter is not None and loc == L.counter:
                return Effect('CNT', site, delta=self.delta(val, loc), val=val, also_part=False)
            if L.part is not None and loc == L.part:
                # net number of ++/-- applied to the entry value (nested adv terms when the list changed in between)
                d, v = 0, val
                while isinstance(v, tuple) and v[0] == 'adv':
                    d += v[1]
                    v = v[2]
                if v != ld0(L.part):
                    d = None
                return Effect('PART', site, delta=d, val=val)
            fe = L.field_of_elem(loc)
            if fe is not None:
                ent, f = fe
                if f == r.value:
                    return Effect('VAL', site, ent=ent, val=val, loc=loc)
                if f == getattr(r, 'deadline', None):
                    return Effect('DEADLINE', site, ent=ent, val=val, loc=loc)
                if f == getattr(r, 'stamp', None):
                    enc = 'plain'
                    if isinstance(val, tuple) and len(val) == 4 and val[0] == 'bin' and val[1] == '+':
                        # the idle timer kept as the instant at which the entry becomes due for aging: stamp + tick
                        a, b = val[2], val[3]
                        if L.is_tick(b) and isinstance(a, tuple) and a[:1] == ('now',):
                            val, enc = a, 'due'
                        elif L.is_tick(a) and isinstance(b, tuple) and b[:1] == ('now',):
                            val, enc = b, 'due'
                    return Effect('STAMP', site, ent=ent, val=val, loc=loc, enc=enc)
                if f in r.backptrs:
                    return Effect('BACKPTR', site, ent=ent, field=f, val=val, loc=loc)
            if L.perm is not None and isinstance(loc, tuple) and loc[0] == 'idx' and loc[1] == L.perm:
                return Effect('PERM_WR', site, pos=loc[2], val=val, how=how)
            from symex import root_of
            rt = root_of(loc)
            if isinstance(loc, tuple) and len(loc) == 3 and loc[0] == 'fld' and ('.' + str(loc[2])) in getattr(r, 'inert', ()):
                return Effect('INERT_WR', site, loc=loc, val=val, field=loc[2])
            if rt[0] == 'field':
                if rt[1] in (getattr(r, 'config', None) or []):
                    return Effect('CFG', site, field=rt[1], val=val, direct=(loc == THIS(rt[1])))
                if rt[1] in (getattr(r, 'rng', None) or []):
                    return Effect('RNG_STATE', site, field=rt[1])
                if rt[1] in getattr(r, 'inert', ()):
                    return Effect('INERT_WR', site, loc=loc, val=val, field=rt[1])
                return Effect('OTHER_WR', site, loc=loc, val=val, field=rt[1])
            if rt[0] == 'param':
                return Effect('OUT_WR', site, loc=loc, val=val)
            if rt[0] == 'res' and rt[1] in self.out_results:
                return Effect('OUT_WR', site, loc=loc, val=val)      # through the reference output.emplace_back(...) returned
            if isinstance(loc, tuple) and loc[0] == 'range':
                return Effect('RANGE_WR', site, first=loc[1], last=loc[2], val=val)
            return Effect('OTHER_WR', site, loc=loc, val=val, field=None)
        if k == 'stale-pos':
            return Effect('STALE_POS', e[3], loc=e[1], val=e[2])
        if k == 'lwr':
            return Effect('LOCAL', e[3], loc=e[1], val=e[2], how=e[4] if len(e) > 4 else '=')
        if k == 'swap':
            return Effect('SWAP', e[3], a=e[1], b=e[2])
        if k == 'rng':
            return Effect('RNG_DRAW', e[4], sym=e[1], dist=e[2], engine=e[3])
        if k == 'now':
            return Effect('CLOCK', e[2], sym=e[1])
        if k == 'iota':
            return Effect('IOTA', e[4], first=e[1], last=e[2], start=e[3])
        if k == 'unknown':
            return Effect('UNKNOWN', e[2], what=e[1])
        return None

    def delta(self, val, loc):
        if val == ld0(loc):
            return 0
        if isinstance(val, tuple) and val[0] == 'add' and val[1] == ld0(loc):
            return val[2]
        return None

    def unbind_entity(self, a):
        """which slot's index entry does index.erase(a) remove"""
        L = self.L
        r = L.r
        if a is None:
            return Ent('OTHER')
        if L.is_find(a):
            return Ent('FOUND', a[3][0], a[4] or 0, a)
        v = a
        if isinstance(v, tuple) and v[0] == 'optval':
            v = v[1]
        if is_ld(v) and v[2][0] == 'fld' and v[2][2] in r.backptrs and r.backptrs[v[2][2]] == 'index':
            if v[1] != 0:
                return Ent('STALE', None, v[1], a)
            if r.kind == 'maplist':
                n = L.node_entity(unld_node(v[2][1]))
                return Ent('VIA', n.key(), 0, a)
            return L.elem_entity(v[2][1])
        if isinstance(v, tuple) and v[0] == 'ma':
            return Ent('MAYALIAS', None, 0, a)
        if isinstance(v, tuple) and v[0] == 'p':
            return Ent('PARAM', v[1], 0, a)
        if isinstance(v, tuple) and v[0] == 'res':
            return Ent('RES', v[1], 0, a)
        return Ent('OTHER', None, 0, a)

    def backptr_owner(self, a):
        """aux.erase(e.m_xxx_position): the element owning that back-pointer"""
        L = self.L
        r = L.r
        if is_ld(a) and a[2][0] == 'fld' and a[2][2] in r.backptrs:
            if a[1] != 0:
                return Ent('STALE', None, a[1], a)
            return L.elem_entity(a[2][1])
        if isinstance(a, tuple) and a[0] == 'res':
            return Ent('RES', a[1], 0, a)
        if isinstance(a, tuple) and a[0] == 'q' and a[1] in ('begin', 'cbegin'):
            return Ent('AUXHEADNODE', None, a[4] or 0, a)
        if isinstance(a, tuple) and a[0] == 'lv':
            return Ent('LV', a[1], 0, a)
        if isinstance(a, tuple) and a[0] == 'ma':
            return Ent('MAYALIAS', None, 0, a)
        return Ent('OTHER', None, 0, a)

    # ---- queries --------------------------------------------------------------------------------
    def decided(self, term):
        """truth of `term` if the path branched on exactly this term, else None"""
        t = term
        neg = False
        while isinstance(t, tuple) and t and t[0] == 'not':
            t = t[1]
            neg = not neg
        for c in self.conds:
            if c[4] == t:
                return c[5] != neg
        return None

    def cond(self, kind):
        """truth of the first occurrence of predicate `kind` on this segment, or None"""
        for c in self.conds:
            if c[0] == kind:
                return c[2]
        return None

    def conds_of(self, kind):
        return [c for c in self.conds if c[0] == kind]

    def effs(self, *kinds):
        return [e for e in self.effects if e.kind in kinds]

    def state_effects(self):
        """effects on container state (not locals / outputs / clock)"""
        return [e for e in self.effects if e.kind not in ('LOCAL', 'OUT_WR', 'OUT_CALL', 'CLOCK', 'INERT_WR', 'INERT_CALL')]

    def valuation(self):
        out = []
        for kind, args, truth, site, raw, rawtruth in self.conds:
            a = ','.join(repr(x) if isinstance(x, Ent) else (show(x) if isinstance(x, tuple) else str(x)) for x in args
                         if not (isinstance(x, tuple) and x and x[0] in ('now', 'ld')))
            out.append('%s%s%s' % ('' if truth else '!', kind, '(%s)' % a if a else ''))
        return out

    def describe(self):
        return dict(valuation=self.valuation(), effects=[repr(e) for e in self.state_effects()],
                    ret=show(self.ret) if self.ret is not None else None, status=self.status)

    def all_segments(self):
        yield self
        for lp, segs in self.loops:
            for s in segs:
                yield from s.all_segments()


def flag_controlled(segs, exits):
    """`bool go = true; while (go && ...) { ... go = <test>; }`: an iteration that ends by setting the flag so that the condition fails
    is an iteration that leaves the loop (status 'break'); the exit "flag is false at an arbitrary evaluation of the condition" is that
    very iteration seen from outside and is dropped"""
    def flag_of(c):
        raw = c[4]
        neg = False
        while isinstance(raw, tuple) and raw and raw[0] == 'not':
            raw, neg = raw[1], not neg
        if isinstance(raw, tuple) and raw and raw[0] == 'lv' and len(raw) > 3 and raw[3] == 'iter':
            return raw[1], (bool(c[5]) != neg)          # (variable, value the flag has on this path)
        return None
    drop = []
    for x in exits:
        fl = [flag_of(c) for c in x.conds if c[0] in ('OTHER', 'PARAM')]
        fl = [f for f in fl if f is not None]
        if len(fl) != 1 or len([c for c in x.conds if c[0] not in ('PEEK', 'UPD_OK', 'INS_OK')]) != 1:
            continue
        var, val_at_exit = fl[0]
        setters = []
        ok = True
        for s in segs:
            ws = [e for e in s.effects if e.kind == 'LOCAL' and isinstance(e.loc, tuple) and e.loc[1] == var]
            if not ws:
                continue
            v = ws[-1].val
            if not (isinstance(v, tuple) and v and v[0] == 'bool'):
                ok = False
                break
            if v[1] == val_at_exit and s.status == 'continue':
                setters.append(s)
        if ok and setters:
            for s in setters:
                s.status = 'break'
            drop.append(x)
    if drop:
        exits = [x for x in exits if x not in drop]
    return segs, exits


def emptiness(c):
    """does this condition say whether the container holds anything?  -> True (non-empty) / False (empty) / None"""
    if c[0] in ('NONEMPTY', 'AUX_NONEMPTY'):
        return c[2]
    if c[0] == 'AT_PART' and isinstance(c[1][0], Ent) and c[1][0].kind == 'FRONT':
        return not c[2]           # the partition at the head of the slot list <=> nothing in use
    if c[0] == 'IS_FRONT' and isinstance(c[1][0], Ent) and c[1][0].kind == 'ATPART' and c[1][0].arg == 0:
        return not c[2]
    return None


def feasible(seg):
    """prune paths contradicting RI + capacity >= 1 (closed list of facts, DESIGN.md 3.2); -> (ok, reason)"""
    # the same (pure, versioned) condition term evaluated twice on one path cannot come out both ways
    seen = {}
    for c in seg.conds:
        raw = c[4]
        rt = c[5] if len(c) > 5 and c[5] is not None else c[2]
        if isinstance(raw, tuple) and len(raw) == 4 and raw[0] == 'cmp' and raw[2] == raw[3] and isinstance(raw[2], tuple) and rt is not None:
            # x == x / x != x / x < x on one and the same term
            if (raw[1] in ('==', '<=', '>=')) != bool(rt):
                return False, 'a term compared with itself'
        if isinstance(raw, tuple) and raw:
            try:
                if raw in seen and seen[raw] != rt:
                    return False, 'the same condition is taken both ways'
                seen[raw] = rt
            except TypeError:
                pass
    full = seg.cond('FULL')
    nonempty = seg.cond('NONEMPTY')
    if full is True and nonempty is False:
        return False, 'FULL => NONEMPTY (capacity >= 1)'
    atcap = seg.cond('ATCAP')
    if atcap is True and nonempty is False:
        return False, 'size == capacity => NONEMPTY (capacity >= 1)'
    # PRESENT(k) => NONEMPTY
    for c in seg.conds_of('PRESENT'):
        if c[2] and c[1][1] == 0 and nonempty is False:
            # only if no REMOVE happened before the NONEMPTY test: conservative -> check counter unchanged
            if not seg.effs('CNT'):
                return False, 'PRESENT(k) => NONEMPTY'
    # an element reached through the index is bound: fifo has_value() on it is true
    for c in seg.conds_of('HASKEY'):
        ent = c[1][0]
        if ent.kind == 'FOUND' and c[2] is False:
            return False, 'index-reached node is BOUND (has_value() true)'
    # ---- comparisons decided by RI for bound slots / consistent structures
    RI_BOUND = ('FOUND', 'AUXHEAD', 'AUXNODE', 'VIA', 'TTLOF', 'NEW', 'POSOF', 'LV', 'BACK', 'FRONT', 'FROMEND', 'ATPART', 'RANDPOS', 'PERMAT')
    for c in seg.conds:
        if c[0] == 'VALID_IT' and c[2] is False and isinstance(c[1][0], Ent) and c[1][0].kind in RI_BOUND:
            return False, 'RI: a stored iterator of a bound slot is never end()'
        if c[0] == 'SID_RANGE' and c[2] is False:
            return False, 'RI: slot ids held by the structures are < capacity'
        if c[0] == 'BACKPTR_SELF' and c[2] is False:
            return False, 'RI: a bound slot\'s stored position is the position it is filed at'
        if c[0] == 'TRUE' and c[2] is False:
            return False, 'capacity >= 1'
        if c[0] == 'RNG_RANGE' and c[2] is False:
            for e in seg.effs('RNG_DRAW'):
                d = e.dist
                if e.sym == ('rng', c[1][0]) and isinstance(d, tuple) and d and d[0] == 'ctor' and len(d) > 2 and len(d[2]) == 2 \
                        and d[2][0] == ('int', 0) and d[2][1] == ('add', ld0(seg.L.part), -1):
                    return False, 'the draw is from {0 .. in-use - 1}'
    # a local iterator that is not the partition (and walks the used region from the head) is not end() either
    for c in seg.conds_of('LV_AT_ORDER_END'):
        if c[2] is True:
            for d in seg.conds_of('AT_PART'):
                if d[2] is False and isinstance(d[1][0], Ent) and d[1][0].kind == 'LV' and d[1][0].arg == c[1][0]:
                    return False, 'RI: a position before the partition is not end()'
    # sizes only shrink on a path that adds nothing to the structure: size(before) >= size(after)
    for c in seg.conds:
        raw = c[4]
        if c[0] == 'OTHER' and isinstance(raw, tuple) and raw and raw[0] == 'cmp' and raw[1] in ('<', '>', '<=', '>='):
            a, b = raw[2], raw[3]
            if all(isinstance(x, tuple) and x and x[0] == 'q' and x[1] == 'size' for x in (a, b)) and a[2] == b[2] and a[4] != b[4] \
                    and a[4] is not None and b[4] is not None:
                early, late = (a, b) if a[4] < b[4] else (b, a)
                adds = [e for s2 in seg.all_segments() for e in s2.effects
                        if (e.kind == 'AUX_ADD' and THIS(e.aux) == a[2]) or (e.kind in ('BIND', 'INDEX_OP') and a[2] == seg.L.index)
                        or e.kind in ('AUX_OP', 'UNKNOWN')]
                if not adds:
                    # truth of (early >= late) is True
                    op = raw[1] if a is early else {'<': '>', '>': '<', '<=': '>=', '>=': '<='}[raw[1]]
                    val = {'>=': True, '<': False}.get(op)
                    if val is not None and bool(c[5]) != val:
                        return False, 'sizes only shrink on this path'
    # fifo: an unbound node exists only while the cache is not full
    if seg.L.r.name == 'fifo_cache' and seg.cond('FULL') is True:
        for c in seg.conds_of('HASKEY'):
            if c[2] is False:
                return False, 'RI: a full fifo has no unbound node'
    # emptiness is one fact: counter, index, partition-at-head and every auxiliary structure agree (between count-changing effects)
    L = seg.L

    def source(c):
        """which structure an emptiness test looks at"""
        if c[0] == 'AUX_NONEMPTY':
            return 'aux:%s' % c[1][0]
        raw = c[4]
        subs = list(subterms(raw)) if isinstance(raw, tuple) else []
        if L.counter is not None and any(x == ld0(L.counter) for x in subs):
            return 'counter'
        if any(isinstance(x, tuple) and x and x[0] == 'q' and x[2] == L.index for x in subs):
            return 'index'
        if L.part is not None and any(x == ld0(L.part) for x in subs):
            return 'part'
        return 'counter'

    def deltas(e):
        """[(structure, change in its element count or None if unknown)]"""
        if e.kind == 'CNT':
            out = [('counter', e.delta)]
            if getattr(e, 'also_part', False):
                out.append(('part', e.delta))
            return out
        if e.kind == 'BIND':
            return [('index', 1)]
        if e.kind == 'UNBIND':
            return [('index', -1)]
        if e.kind == 'INDEX_OP':
            return [('index', None)]
        if e.kind == 'AUX_ADD':
            return [('aux:%s' % e.aux, 1)]
        if e.kind == 'AUX_DEL':
            return [('aux:%s' % e.aux, -1)]
        if e.kind in ('AUX_ERASE_RANGE', 'AUX_OP'):
            return [('aux:%s' % e.aux, None)]
        if e.kind == 'PART':
            return [('part', e.delta)]
        return []

    class Dirty:
        """structures whose element count differs (or may differ) from what it was when the operation began"""
        def __init__(self):
            self.net = {}
        def apply(self, ds):
            for st_, d in ds:
                cur = self.net.get(st_, 0)
                self.net[st_] = None if (d is None or cur is None) else cur + d
                own.pop(st_, None)
        def __contains__(self, st_):
            return self.net.get(st_, 0) != 0

    clean_fact = None          # common emptiness of all structures whose count is what it was when the operation began
    own = {}                   # structure -> fact established after it was modified
    dirty = Dirty()
    for k, i in seg.order:
        if k == 'cond':
            c = seg.conds[i]
            if emptiness(c) is not None:
                c = (c[0], c[1], emptiness(c)) + tuple(c[3:])
                src = source(c) if c[0] not in ('AT_PART', 'IS_FRONT') else 'part'
                if src in dirty:
                    if src in own and own[src] != c[2]:
                        return False, 'contradictory emptiness of %s' % src
                    own[src] = c[2]
                else:
                    if clean_fact is not None and clean_fact != c[2]:
                        return False, 'RI: counter, index, partition and auxiliary structures are empty together'
                    clean_fact = c[2]
            elif c[0] in ('PRESENT', 'FULL') and c[2] is True and (c[0] == 'FULL' or c[1][1] == 0):
                src = 'index' if c[0] == 'PRESENT' else 'counter'
                if src not in dirty:
                    if clean_fact is False:
                        return False, 'RI: %s => non-empty' % c[0]
                    clean_fact = True
        elif k == 'eff':
            dirty.apply(deltas(seg.effects[i]))
        elif k == 'loop':
            lp, segs = seg.loops[i]
            per_struct = {}
            for s2 in segs:
                net = {}
                for e in s2.effects:
                    for st_, d in deltas(e):
                        cur = net.get(st_, 0)
                        net[st_] = None if (d is None or cur is None) else cur + d
                nested = bool(s2.loops)
                for st_, d in net.items():
                    per_struct.setdefault(st_, []).append(None if nested else d)
            # a loop whose every iteration leaves a structure's count unchanged (re-filing) does not disturb it
            dirty.apply([(st_, None) for st_, ds in per_struct.items() if any(d != 0 for d in ds)])
    # same predicate decided both ways on unchanged state
    seen = {}
    for kind, args, truth, site, raw, rawtruth in seg.conds:
        if kind in ('OTHER',):
            continue
        key = (kind, tuple(a.key() if isinstance(a, Ent) else a for a in args))
        if key in seen and seen[key] != truth and kind in ('UPD_OK', 'INS_OK', 'PEEK'):
            return False, 'contradictory %s' % kind
        seen.setdefault(key, truth)
    return True, None


def segments_of(an, cm, roles, m):
    """lifted, feasible method-level segments of entry point m (+ the pruned ones with reasons)"""
    L = Lifter(roles)
    keep, pruned = [], []
    for p in an.paths(cm, m):
        s = Segment(L, p, 0, m)
        ok, why = feasible(s)
        if ok:
            keep.append(s)
        else:
            pruned.append((s, why))
    return keep, pruned
