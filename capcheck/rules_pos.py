"""Order-policy rules over the list-position domain: C10 (LRU family), C12 (FIFO), C13 (MRU), partition integrity (C01/C08)."""
import lift
import ops
from lift import Ent
from pos import PosSim, Node
from report import Violation
from rules_seq import V, method_segments, site_of_seg, first_site, found_expired, where_of, same_ent, TTL_CACHES, actual_class
from symex import show, show_site

USE_POS = {'lru_cache': 'FRONT', 'tlru_cache': 'FRONT', 'utlru_cache': 'FRONT', 'mru_cache': 'LAST_USED',
           'lfuda_cache': 'LAST_USED', 'fifo_cache': None, 'lfu_cache': None}
BIND_POS = {'lru_cache': 'FRONT', 'tlru_cache': 'FRONT', 'utlru_cache': 'FRONT', 'mru_cache': 'LAST_USED',
            'lfuda_cache': 'LAST_USED', 'fifo_cache': 'BACK', 'lfu_cache': 'USED'}
PEEK_CAPABLE = ('lru_cache', 'mru_cache', 'tlru_cache', 'utlru_cache', 'lfu_cache', 'lfuda_cache')


def body_case(cm, roles, k, b):
    """classify a single-key operation body: USE / BIND / REMOVE / NOOP ..."""
    seg = b.seg
    present = seg.cond('PRESENT')
    effs = ops.body_effects(b, roles)
    if k == 'INSERT':
        from rules_seq import expected_insert_classes
        exp = found_expired(seg) if cm.name in TTL_CACHES else None
        want = expected_insert_classes(cm, present, seg.cond('UPD_OK'), seg.cond('INS_OK'), exp)
        if len(want) == 1:
            return {'UPDATE': 'USE', 'BIND': 'BIND', 'REJECT': 'NOOP'}[next(iter(want))]
        cls = actual_class(effs)
        return {'UPDATE': 'USE', 'BIND': 'BIND', 'REJECT': 'NOOP'}.get(cls, 'OTHER')
    if k == 'FIND':
        if present is not True:
            return 'NOOP'
        if cm.name in TTL_CACHES and found_expired(seg) is True:
            # a lookup may discard the expired entry it ran into, or leave it for the next prune / clean
            return 'REMOVE' if any(e.kind == 'UNBIND' for e in effs) else 'NOOP'
        if cm.name in PEEK_CAPABLE:
            pk = seg.cond('PEEK')
            if pk is True:
                return 'NOOP'
            if pk is False:
                return 'USE'
            if not ops.named(b.method) and not any('peek' in (p.get('type', {}).get('qualType', '') or '') for p in b.method.params):
                # a lookup-like operation added later, without a peek argument (contains / touch): either it leaves the order
                # alone or what it does to it is exactly a use
                if getattr(b.method, 'eff_use', False):
                    return 'USE'        # some live hit of this method records a use: then every live hit has to
                return 'USE' if any(e.kind in ('MOVE', 'PART', 'CNT', 'AUX_ADD', 'AUX_DEL', 'AUX_MOVE', 'STAMP') for e in effs) else 'NOOP'
            return 'HIT-UNDECIDED-PEEK'
        return 'HIT'
    if k == 'ERASE':
        return 'REMOVE' if present is True else 'NOOP'
    return 'OTHER'


def simulate(seg, roles, assume_begin=()):
    sim = PosSim(seg, roles)
    sim.assume_begin = frozenset(assume_begin)
    sim.run()
    return sim


def subject_node(sim, seg):
    for c in seg.conds_of('PRESENT'):
        if c[2]:
            ent = Ent('FOUND', c[1][0], c[1][1])
            n = sim.find_ent(ent)
            if n is None:
                n = sim.ensure(ent)
            return n
    return None


def rule_order(an, res, prop, containers):
    for cm, roles in an.classes(containers):
        if roles.order is None:
            continue
        for m in an.entry_points(cm):
            k = ops.kind_of(m)
            if k not in ('INSERT', 'FIND', 'ERASE'):
                continue
            for top in method_segments(an, cm, roles, m, res):
                for e in top.effects:
                    if e.kind == 'OUT_CALL' and str(e.name).startswith('algo:'):
                        res.ob('R-USE-POS', ok=False)
                        V(res, prop, 'R-USE-POS', cm, m.key(), 'the input range is re-arranged (%s) before it is applied' % e.name[5:], e.site,
                          'insertions / uses are recorded in the order the range lists them; %s changes that order' % e.name[5:])
                # a use inside a range call counts like a single call: every element performs the single-key operation
                for lp, s2 in ops.bodiless_iterations(top):
                    res.ob('R-USE-POS', ok=False)
                    V(res, prop, 'R-USE-POS', cm, m.key(), 'a range element is handled without the single-key operation, its use is not recorded',
                      site_of_seg(s2, m), 'iteration path [%s]' % ' '.join(s2.valuation()))
                for b in ops.find_bodies(top, m):
                    check_body(res, prop, cm, roles, m, k, b)
                    check_fifo_unbind(res, prop, cm, roles, m, b.seg, an)
                    if k == 'INSERT' and cm.name in TTL_CACHES:
                        # "same victim whenever nothing has expired" needs the head-expired test to read true deadlines
                        from rules_ttl import check_refile
                        check_refile(res, prop, cm, roles, m, b)
        check_clean_and_other(an, res, prop, cm, roles)


def single_node_list(seg, roles):
    """did the path establish that the order list has exactly one node: `std::next(l.begin()) == l.end()` (capacity 1)?"""
    if roles.order is None:
        return False
    order = ('fld', ('this',), roles.order)

    def next_of_begin(x):
        return (isinstance(x, tuple) and len(x) > 2 and x[0] == 'adv' and x[1] == 1 and isinstance(x[2], tuple) and len(x[2]) > 2
                and x[2][0] == 'q' and x[2][1] in ('begin', 'cbegin') and x[2][2] == order)

    def end_of(x):
        return isinstance(x, tuple) and len(x) > 2 and x[0] == 'q' and x[1] in ('end', 'cend') and x[2] == order
    for c in seg.conds:
        raw, truth = c[4], c[2]
        if isinstance(raw, tuple) and len(raw) == 4 and raw[0] == 'cmp' and raw[1] in ('==', '!='):
            a, b = raw[2], raw[3]
            if (next_of_begin(a) and end_of(b)) or (next_of_begin(b) and end_of(a)):
                rawtruth = c[5] if len(c) > 5 else truth
                if (raw[1] == '==') == bool(rawtruth if rawtruth is not None else truth):
                    return True
    return False


def carried_destination(b, moves):
    """is the destination of a splice in this range-loop body the value of a local variable that the loop carries across iterations?"""
    lp = b.in_loop
    if lp is None or getattr(lp, 'kind', None) != 'range':
        return False
    for mv in moves:
        d = getattr(mv, 'dest', None)
        if isinstance(d, tuple) and d[:1] == ('lv',) and len(d) > 2 and d[2] == lp.id:
            return True
    return False


def carried_head_invariant(b, roles):
    """`auto front = l.begin(); for (key : range) { ... l.splice(front, l, pos); front = pos; }`: is `front == l.begin()` an invariant
    of the loop?  Base: the variable's last value before the loop is l.begin() and the list is not touched in between.  Step: on
    every iteration path, simulated with the variable standing for the head, either the variable is not written and the iteration
    neither moves nor adds nor removes a node, or its last written value names the node that is first when the iteration ends.
    Returns the set of terms that may be read as begin(), or None."""
    lp, top = b.in_loop, b.top
    if lp is None or roles.order is None:
        return None
    order = ('fld', ('this',), roles.order)
    dests = [mv.dest for mv in b.seg.effs('MOVE') if isinstance(getattr(mv, 'dest', None), tuple) and mv.dest[:1] == ('lv',) and mv.dest[2] == lp.id]
    if not dests or len(set((d[1], d[4]) for d in dests)) != 1:
        return None
    name, addr = dests[0][1], dests[0][4]

    def is_var(loc):
        return isinstance(loc, tuple) and len(loc) > 2 and loc[0] == 'var' and loc[1] == name and loc[2] == addr
    init, dirty = None, False
    for e in top.path.trace:
        if e[0] == 'loop' and e[1] is lp:
            break
        if e[0] == 'lwr' and is_var(e[1]):
            init, dirty = e[2], False
        elif e[0] in ('call', 'loop') and (e[0] == 'loop' or e[1] == order):
            dirty = True
    if dirty or not (isinstance(init, tuple) and init[:2] in (('q', 'begin'), ('q', 'cbegin')) and init[2] == order):
        return None
    segs = next((ss for lp2, ss in top.loops if lp2 is lp), None)
    if not segs:
        return None
    terms = set()
    for s in segs:
        for e in s.path.trace:
            for x in e[1:]:
                _collect_lv(x, name, addr, lp.id, terms)
    terms |= set(dests)
    for s in segs:
        if s.status == 'exit' or not lift.feasible(s)[0]:
            continue
        sim = simulate(s, roles, terms)
        if sim.infeasible:
            continue
        if sim.unknown or s.loops:
            return None
        last = None
        for e in s.effects:
            if e.kind == 'LOCAL' and is_var(e.loc):
                last = e.val
        if last is None and any(e[0] == 'lwr' and is_var(e[1]) for e in s.path.trace):
            return None
        if last is None:
            if s.effs('MOVE', 'BIND', 'UNBIND', 'PART'):
                return None
        else:
            n = sim.resolve_iter(last)
            if not isinstance(n, Node) or n is not sim.first_node():
                return None
    return terms


def _collect_lv(x, name, addr, lid, out, depth=0):
    if isinstance(x, tuple) and depth < 12:
        if x[:1] == ('lv',) and len(x) > 4 and x[1] == name and x[2] == lid and x[4] == addr:
            out.add(x)
            return
        for y in x:
            _collect_lv(y, name, addr, lid, out, depth + 1)


def check_body(res, prop, cm, roles, m, k, b):
    seg = b.seg
    case = body_case(cm, roles, k, b)
    head_terms = carried_head_invariant(b, roles) if carried_destination(b, seg.effs('MOVE')) else None
    sim = simulate(seg, roles, head_terms or ())
    if sim.infeasible:
        return          # the path's own position tests contradict each other: it cannot be taken
    val = ' '.join(seg.valuation())
    moves = seg.effs('MOVE')
    if carried_destination(b, moves) and head_terms is None:
        # `auto front = l.begin(); for (key : range) { l.splice(front, l, pos); front = pos; }`: where the destination is depends on
        # what earlier iterations stored in the variable - an invariant of the loop the one-iteration summary does not establish
        msg = ('G-UNKNOWN splice destination held in an iterator variable that is carried from one range element to the next '
               '(a loop invariant about that variable would be needed) in %s reached from %s::%s' % (show_site(moves[0].site), cm.name, m.key()))
        if msg not in res.incomplete:
            res.incomplete.append(msg)
        return
    res.sample(dict(container=cm.name, method=b.where, case=case, valuation=val, final_list=sim.show()), cap=12)
    # generic: position-model problems (partition corruption, claims, splice forms)
    for code, msg, site in sim.problems:
        res.ob('R-LIST-DISCIPLINE', ok=False)
        V(res, prop, 'R-LIST-DISCIPLINE', cm, b.where, '%s on %s path' % (code, case), site or site_of_seg(seg, m), '%s [%s]' % (msg, val))
    bad = sim.integrity() if not sim.unknown else []
    res.ob('R-PARTITION-INTEGRITY', ok=not bad and not sim.unknown)
    if bad:
        V(res, prop, 'R-PARTITION-INTEGRITY', cm, b.where, '%s path leaves %s' % (case, bad[0].split(' (')[0].split(' %')[0]),
          first_site(moves or seg.state_effects(), seg, m),
          'after path [%s] the order list is %s: %s' % (val, sim.show(), '; '.join(bad)))
    elif sim.unknown and (moves or seg.effs('PART', 'BIND', 'UNBIND')):
        V(res, prop, 'R-PARTITION-INTEGRITY', cm, b.where, '%s path: list shape not established' % case,
          first_site(moves or seg.state_effects(), seg, m),
          'cannot establish the free/used partition after path [%s]: %s' % (val, '; '.join(sim.unknown[:3])))
    want_use = USE_POS.get(cm.name)
    if case == 'USE':
        subj = subject_node(sim, seg)
        if want_use is None:
            ok = not moves
            res.ob('R-USE-POS', ok=ok)
            if not ok:
                V(res, prop, 'R-USE-POS', cm, b.where, 'use of an entry moves it in the order list', moves[0].site,
                  'in %s an update/lookup must not change the eviction order, but path [%s] splices a node' % (cm.name, val))
        else:
            pos = sim.position_of(subj) if isinstance(subj, Node) else set()
            ok = want_use in pos and not sim.unknown
            res.ob('R-USE-POS', ok=ok)
            if not ok:
                V(res, prop, 'R-USE-POS', cm, b.where, 'used entry does not end at the %s position' % want_use,
                  first_site(moves, seg, m),
                  'after use path [%s] the entry is at %s in %s (policy position: %s)%s'
                  % (val, sorted(pos) or 'an unknown position', sim.show(), want_use, '; unresolved: ' + '; '.join(sim.unknown[:2]) if sim.unknown else ''))
        others = [n for n in sim.moved if n is not subj]
        res.ob('R-WHO-MOVES', ok=not others)
        if others:
            V(res, prop, 'R-WHO-MOVES', cm, b.where, 'a node other than the used entry is moved', moves[0].site, 'moved: %r [%s]' % (others, val))
    elif case in ('NOOP', 'HIT'):
        ok = not moves and not seg.effs('PART')
        res.ob('R-USE-POS', ok=ok)
        if not ok:
            V(res, prop, 'R-USE-POS', cm, b.where, '%s path changes the eviction order' % ('peek/miss/rejected' if case == 'NOOP' else 'lookup'),
              first_site(moves, seg, m), 'path [%s] must not move any node' % val)
    elif case == 'HIT-UNDECIDED-PEEK':
        res.ob('R-USE-POS', ok=False)
        V(res, prop, 'R-USE-POS', cm, b.where, 'hit path does not test the peek flag', site_of_seg(seg, m), 'path [%s]' % val)
    elif case == 'BIND':
        n = sim.bound_node
        want = BIND_POS.get(cm.name)
        pos = sim.position_of(n) if isinstance(n, Node) else set()
        single = single_node_list(seg, roles)
        if single and 'FRONT' in pos:
            pos = set(pos) | {'BACK'}       # the path established next(begin()) == end(): the only node is head and tail at once
        ok = isinstance(n, Node) and want in pos and not sim.unknown
        res.ob('R-BIND-POS', ok=ok)
        if not ok:
            V(res, prop, 'R-BIND-POS', cm, b.where, 'newly inserted entry does not end at the %s position' % want, first_site(seg.effs('BIND'), seg, m),
              'after insert path [%s] the new entry is at %s in %s%s' % (val, sorted(pos) or 'an unknown position', sim.show(),
                                                                      '; unresolved: ' + '; '.join(sim.unknown[:2]) if sim.unknown else ''))
        # the victim (if any) is the policy's
        unb = seg.effs('UNBIND')
        if unb and cm.name != 'lfu_cache' and cm.name != 'lfuda_cache':
            v = unb[0].ent
            if cm.name == 'fifo_cache':
                okv = v.kind in ('FROMEND', 'FRONT') and (any(c[0] == 'HASKEY' and c[2] and same_ent(c[1][0], v) for c in seg.conds) or
                                                         (v.kind == 'FRONT' and seg.cond('FULL') is True))     # as many keys as nodes
                # the recycled node is the list head (spliced from begin() to end())
                okv = okv and ((bool(moves) and moves[0].ent is not None and moves[0].ent.kind == 'FRONT') or
                               (not moves and single and v.kind == 'FRONT'))      # one node: the head is the tail, nothing to re-link
                wantv = 'the head node (earliest inserted)'
            else:
                ttl_head_expired = any(c[0] == 'EXPIRED' and c[2] and c[1][0].kind == 'AUXHEAD' for c in seg.conds)
                if cm.name in TTL_CACHES and ttl_head_expired:
                    okv = True      # expired-first victim: C16
                else:
                    okv = seg.names_back(v) and seg.cond('FULL') is True
                wantv = 'back() of the order list under size >= capacity (the last used node)'
            res.ob('R-VICTIM', ok=okv)
            if not okv:
                V(res, prop, 'R-VICTIM', cm, b.where, 'eviction victim is %s, not the policy victim' % v.kind, unb[0].site,
                  'on full insert path [%s] the victim is %r; the policy victim is %s' % (val, v, wantv))
            # removed node ends in the free region / is the one re-claimed
    elif case == 'REMOVE':
        unb = seg.effs('UNBIND')
        n = sim.unbound_nodes[0] if sim.unbound_nodes else None
        pos = sim.position_of(n) if isinstance(n, Node) else set()
        if cm.name == 'fifo_cache':
            ok = isinstance(n, Node) and 'FRONT' in pos and n.bound is False and not sim.unknown
            want = 'FRONT (where the next insert recycles it)'
        else:
            ok = isinstance(n, Node) and 'FIRST_FREE' in pos and not sim.unknown
            want = 'FIRST_FREE (just behind the used region)'
        res.ob('R-REMOVE-POS', ok=ok)
        if not ok:
            V(res, prop, 'R-REMOVE-POS', cm, b.where, 'removed entry\'s node does not end at %s' % want.split(' (')[0],
              first_site(moves or unb, seg, m), 'after removal path [%s] the node is at %s in %s; it must end at %s%s'
              % (val, sorted(pos) or 'an unknown position', sim.show(), want, '; unresolved: ' + '; '.join(sim.unknown[:2]) if sim.unknown else ''))
        others = [x for x in sim.moved if x is not n]
        res.ob('R-WHO-MOVES', ok=not others)
        if others:
            V(res, prop, 'R-WHO-MOVES', cm, b.where, 'a node other than the removed entry is moved', moves[0].site, 'moved: %r [%s]' % (others, val))


def optional_consulted(an, cm, roles):
    """does any public operation of the fifo decide something by the engagement of a node's optional key position (has_value(), a
    bool test, a comparison with nullopt)?  If none does (the head's liveness is read off `size == node count` instead), a stale
    optional is never looked at and clearing it is not part of the representation any more."""
    cached = getattr(roles, '_optional_consulted', None)
    if cached is not None:
        return cached
    out = False
    try:
        for m2 in an.entry_points(cm):
            for top in method_segments(an, cm, roles, m2):
                for s in top.all_segments():
                    if any(c[0] == 'HASKEY' for c in s.conds):
                        out = True
    except Exception:
        out = True
    roles._optional_consulted = out
    return out


def check_fifo_unbind(res, prop, cm, roles, m, seg, an=None):
    """fifo: a node whose key is erased (and that is not immediately re-bound) must have its optional back-pointer cleared: the next
    insert decides by has_value() whether the recycled node still owns an index entry"""
    if roles.name != 'fifo_cache':
        return
    binds = seg.effs('BIND')
    for u in seg.effs('UNBIND'):
        rebound = any(same_ent(b.ent, u.ent) for b in binds)
        if rebound:
            continue
        cleared = False
        for e in seg.effects:
            if e.kind == 'BACKPTR' and same_ent(e.ent, u.ent) and e.val in (('global', 'nullopt'),):
                cleared = True      # before (iterator saved, optional reset, then erased) or after the index erase
            if e.kind == 'BACKPTR' and same_ent(e.ent, u.ent) and isinstance(e.val, tuple) and e.val[0] == 'ctor' and not e.val[2]:
                cleared = True
        if not cleared and an is not None and not optional_consulted(an, cm, roles):
            res.ob('R-FIFO-UNBIND', ok=True)
            msg = ('fifo_cache: no operation consults the engagement of m_keyed_position (the head counts as keyed exactly when the '
                   'counter equals the number of nodes); a stale optional after an erase is never read')
            if msg not in res.assumptions:
                res.assumptions.append(msg)
            continue
        res.ob('R-FIFO-UNBIND', ok=cleared)
        if not cleared:
            V(res, prop, 'R-FIFO-UNBIND', cm, where_of(m, seg), 'erased node keeps its (now dangling) index iterator', u.site,
              'path [%s]: the node\'s optional key position is not reset after its index entry was erased; the next insert recycling this '
              'node erases through the stale iterator and mis-counts the size' % ' '.join(seg.valuation()))


def check_clean_and_other(an, res, prop, cm, roles):
    """loops that remove entries (clean_expired_values) keep the list discipline too"""
    for m in an.entry_points(cm):
        k = ops.kind_of(m)
        if k not in ('CLEAN',) or roles.kind == 'maplist':
            continue
        for top in method_segments(an, cm, roles, m, res):
            for lp, segs in top.loops:
                for s in ops.feasible_iters(segs):
                    if not s.effs('UNBIND'):
                        continue
                    sim = simulate(s, roles)
                    bad = sim.integrity() if not sim.unknown else ['list shape not established: ' + '; '.join(sim.unknown[:2])]
                    bad += [msg for code, msg, site in sim.problems]
                    res.ob('R-PARTITION-INTEGRITY', ok=not bad)
                    if bad:
                        V(res, prop, 'R-PARTITION-INTEGRITY', cm, where_of(m, s), 'clean iteration leaves %s' % bad[0].split(' (')[0].split(' %')[0],
                          first_site(s.effs('MOVE', 'UNBIND'), s, m), '%s: %s' % (sim.show(), '; '.join(bad)))
