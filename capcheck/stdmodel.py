"""Trusted model of the std-library members the containers use (DESIGN.md section 3.4).

Follows the standard's wording, not the implementation, with one stated exception:
libstdc++'s list::splice updates the list's size field, so list::size() is a
structure read that conflicts with splice ([container.requirements.dataraces]
would allow it, the implementation races).

typeclass(qualType) -> one of: list, vector, umap, map, multimap, optional, list_it, umap_it,
tree_it, vec_it, time_point, duration, rng, dist, randdev, lockguard, mutex, string, pair, other
"""
import re


def typeclass(t):
    if not t:
        return 'other'
    t = t.replace('const ', '').strip()
    t = re.sub(r'^(class|struct|typename)\s+', '', t)
    # order matters: iterators before containers
    if re.match(r'(std::)?(_List_iterator|_List_const_iterator)<', t) or re.match(r'std::list<.*>::(const_)?iterator$', t):
        return 'list_it'
    if re.match(r'(std::)?__detail::_Node_(const_)?iterator<', t) or re.match(r'std::unordered_map<.*>::(const_)?iterator$', t):
        return 'umap_it'
    if re.match(r'(std::)?_Rb_tree_(const_)?iterator<', t) or re.match(r'std::(multi)?map<.*>::(const_)?iterator$', t):
        return 'tree_it'
    if re.match(r'(__gnu_cxx::)?__normal_iterator<', t) or re.match(r'std::vector<.*>::(const_)?iterator$', t):
        return 'vec_it'
    if re.match(r'std::(__cxx11::)?list<', t):
        return 'list'
    if re.match(r'std::vector<', t):
        return 'vector'
    if re.match(r'std::unordered_map<', t):
        return 'umap'
    if re.match(r'std::multimap<', t):
        return 'multimap'
    if re.match(r'std::map<', t):
        return 'map'
    if re.match(r'std::optional<', t):
        return 'optional'
    if 'time_point<' in t and t.startswith('std::chrono::'):
        return 'time_point'
    if t.startswith('std::chrono::duration<') or t in ('std::chrono::milliseconds', 'std::chrono::minutes',
                                                        'std::chrono::seconds', 'std::chrono::nanoseconds'):
        return 'duration'
    if t.startswith('std::lock_guard<') or t.startswith('std::unique_lock<') or t.startswith('std::scoped_lock<'):
        return 'lockguard'
    if re.match(r'std::_Node_handle<', t) or t.endswith('::node_type'):
        return 'node_handle'
    if re.match(r'(cappuccino::)?mutex<', t):
        return 'mutex'
    if re.match(r'std::(atomic<|__atomic_base<|atomic_(u?int|size_t|bool|u?long|u?llong|flag))', t):
        return 'atomic'
    if t.startswith('std::mersenne_twister_engine<') or t == 'std::mt19937':
        return 'rng'
    if t.startswith('std::uniform_int_distribution<'):
        return 'dist'
    if t == 'std::random_device':
        return 'randdev'
    if t.startswith('std::pair<'):
        return 'pair'
    if t.startswith('std::basic_string<') or t.startswith('std::__cxx11::basic_string<') or t == 'std::string':
        return 'string'
    if t.startswith('std::tuple<'):
        return 'tuple'
    return 'other'


CONTAINERS = ('list', 'vector', 'umap', 'map', 'multimap')
ITERATORS = ('list_it', 'umap_it', 'tree_it', 'vec_it')

# (typeclass, member) -> (kind, access)
#   kind: 'pure'   result depends on the container's shape (epoch-stamped query), no state change
#         'stable' result independent of later shape changes (end() of node-based containers)
#         'mut'    changes the container
#   access: 'R' / 'W' on the container *structure*  (for the lockset analysis)
#   extra flags: 'size' reads the size field; 'wsize' writes it (libstdc++ list)
M = {}


def _add(tc, names, kind, acc, *flags):
    for n in names.split():
        M[(tc, n)] = (kind, acc, frozenset(flags))


for _tc in ('list',):
    _add(_tc, 'begin cbegin front back rbegin', 'pure', 'R')
    _add(_tc, 'end cend', 'stable', 'R')
    _add(_tc, 'size empty', 'pure', 'R', 'size')
    _add(_tc, 'splice', 'mut', 'W', 'wsize', 'keeps_iterators')
    _add(_tc, 'emplace_back emplace_front push_back push_front emplace insert', 'mut', 'W', 'wsize', 'keeps_iterators', 'grows')
    _add(_tc, 'erase pop_back pop_front', 'mut', 'W', 'wsize', 'erases')
    _add(_tc, 'clear', 'mut', 'W', 'wsize', 'erases_all')
    _add(_tc, 'resize assign swap sort reverse merge remove remove_if unique', 'mut', 'W', 'wsize', 'erases_all')
_add('vector', 'begin cbegin front back data operator[] at', 'pure', 'R')
_add('vector', 'end cend', 'pure', 'R')
_add('vector', 'size empty capacity', 'pure', 'R', 'size')
_add('vector', 'reserve', 'mut', 'W', 'realloc')
_add('vector', 'emplace_back push_back emplace insert resize assign clear erase pop_back swap shrink_to_fit', 'mut', 'W', 'realloc', 'wsize')
for _tc in ('umap', 'map', 'multimap'):
    _add(_tc, 'find count contains at equal_range lower_bound upper_bound begin cbegin', 'pure', 'R')
    _add(_tc, 'end cend', 'stable', 'R')
    _add(_tc, 'size empty', 'pure', 'R', 'size')
    _add(_tc, 'emplace insert try_emplace insert_or_assign emplace_hint operator[]', 'mut', 'W', 'wsize', 'grows')
    _add(_tc, 'erase extract', 'mut', 'W', 'wsize', 'erases')
    _add(_tc, 'clear', 'mut', 'W', 'wsize', 'erases_all')
    _add(_tc, 'swap merge', 'mut', 'W', 'wsize', 'erases_all')
for _tc in ('map', 'multimap'):
    _add(_tc, 'key_comp value_comp', 'stable', 'R')
_add('umap', 'max_load_factor load_factor bucket_count', 'pure', 'R')   # the 1-arg setter is special-cased
_add('umap', 'reserve rehash', 'mut', 'W', 'rehash')
_add('optional', 'has_value value operator* operator-> value_or operator bool', 'pure', 'R')
_add('optional', 'reset emplace swap', 'mut', 'W')


def lookup(tc, name):
    return M.get((tc, name))
