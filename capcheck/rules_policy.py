"""Count / aging / random-replacement rules: C11 (LFU counts), C14 (LFUDA aging), C15 (random replacement)."""
import lift
import ops
from lift import Ent, is_ld, ld0
from model import THIS
from report import Violation
from rules_seq import V, method_segments, site_of_seg, first_site, where_of, same_ent, actual_class
from rules_pos import body_case, simulate, subject_node
from rules_ttl import clock_syms, top_of
from stdmodel import typeclass
from symex import show, show_site


def count_read_of(ent_test, t, roles, L):
    """is t the stored use count of the entity:  (*e.m_lfu_position).first  read at era 0"""
    bp = next((f for f, s in roles.backptrs.items() if s == roles.count_struct), None)
    if is_ld(t) and t[1] == 0 and t[2][0] == 'fld' and t[2][2] == 'first' and t[2][1][0] == 'deref':
        it = t[2][1][1]
        if is_ld(it) and it[1] == 0 and it[2][0] == 'fld' and it[2][2] == bp:
            e = L.elem_entity(it[2][1])
            return ent_test(e)
    return False


def rule_counts(an, res, prop, containers=('lfu_cache', 'lfuda_cache')):
    for cm, roles in an.classes(containers):
        aux = roles.count_struct
        f = cm.field_by_name[aux]
        okt = typeclass(f.type) == 'multimap' and f.type.replace('std::multimap<', '').lstrip().startswith('unsigned long') and 'greater' not in f.type
        res.ob('R-COUNT-ORDERED', ok=okt)
        if not okt:
            V(res, prop, 'R-COUNT-ORDERED', cm, '(class)', 'use-count structure is not a multimap ordered by ascending count', f.loc,
              '%s has type %s' % (aux, f.type))
        bp = next((x for x, s in roles.backptrs.items() if s == aux), None)
        for m in an.entry_points(cm):
            k = ops.kind_of(m)
            if k not in ('INSERT', 'FIND', 'ERASE'):
                continue
            for top in method_segments(an, cm, roles, m, res):
                for b in ops.find_bodies(top, m):
                    seg = b.seg
                    case = body_case(cm, roles, k, b)
                    effs = ops.body_effects(b, roles)
                    adds = [e for e in effs if e.kind == 'AUX_ADD' and e.aux == aux]
                    dels = [e for e in effs if e.kind == 'AUX_DEL' and e.aux == aux]
                    bps = [e for e in effs if e.kind == 'BACKPTR' and e.field == bp]
                    val = ' '.join(seg.valuation())
                    L = seg.L
                    if case == 'BIND':
                        bind = seg.effs('BIND')
                        # the aging loop of lfuda's prune re-files other entries inside its own loop segments, not here
                        ok = (len(adds) == 1 and adds[0].key == ('int', 1) and bind and same_ent(adds[0].ent, bind[0].ent)
                              and len(bps) == 1 and bps[0].val == adds[0].res and same_ent(bps[0].ent, bind[0].ent))
                        # a victim's count entry is removed with it
                        unb = seg.effs('UNBIND')
                        ok = ok and len(dels) == len(unb) and all(same_ent(d.ent, u.ent) for d, u in zip(dels, unb))
                        res.ob('R-COUNT-ALG', ok=ok)
                        if not ok:
                            V(res, prop, 'R-COUNT-ALG', cm, b.where, 'new entry is not filed with use count 1', first_site(adds or bind, seg, m),
                              'insert path [%s]: count entries added %s, removed %s, stored position %s'
                              % (val, [repr(a) for a in adds], [repr(d) for d in dels], [repr(x) for x in bps]))
                    elif case == 'USE':
                        subj = lambda e: e.kind == 'FOUND'
                        ok = len(adds) == 1 and len(dels) == 1 and len(bps) == 1
                        why = 'count entry is not removed once and re-added once'
                        if ok:
                            a, d, p = adds[0], dels[0], bps[0]
                            key = a.key
                            good_key = (isinstance(key, tuple) and key[0] == 'add' and key[2] == 1 and count_read_of(subj, key[1], roles, L))
                            order_ok = seg.effects.index(d) < seg.effects.index(a) < seg.effects.index(p)
                            ent_ok = d.ent.kind == 'FOUND' and (a.ent.kind in ('FOUND',) or (a.ent.kind == 'SELF' and a.ent.arg[0][0] == 'FOUND')) \
                                and p.ent.kind == 'FOUND' and p.val == a.res
                            ok = bool(good_key and order_ok and ent_ok)
                            why = ('re-filed count is %s, not stored count + 1' % show(key) if not good_key else
                                   'count entry re-filed for a different node or stored position not refreshed' if not ent_ok else
                                   'old count entry erased after the new position was stored')
                        res.ob('R-COUNT-ALG', ok=ok)
                        if not ok:
                            V(res, prop, 'R-COUNT-ALG', cm, b.where, 'use does not increase the entry\'s count by exactly one: ' + why.split(' %')[0],
                              first_site(adds or dels, seg, m), 'use path [%s]: %s' % (val, why))
                    elif case in ('NOOP', 'HIT'):
                        ok = not adds and not dels
                        res.ob('R-COUNT-ALG', ok=ok)
                        if not ok:
                            V(res, prop, 'R-COUNT-ALG', cm, b.where, 'use counts change on a peek / miss / rejected path', first_site(adds or dels, seg, m),
                              'path [%s] re-files a count entry' % val)
                    elif case == 'REMOVE':
                        unb = seg.effs('UNBIND')
                        ok = len(dels) == 1 and not adds and unb and same_ent(dels[0].ent, unb[0].ent)
                        res.ob('R-COUNT-ALG', ok=ok)
                        if not ok:
                            V(res, prop, 'R-COUNT-ALG', cm, b.where, 'removed entry\'s count entry is not removed with it', first_site(dels or unb, seg, m),
                              'removal path [%s]' % val)
                    # victim = minimum count
                    if case == 'BIND' and seg.effs('UNBIND'):
                        v = seg.effs('UNBIND')[0].ent
                        okv = v.kind == 'AUXHEAD' and v.arg == aux
                        res.ob('R-VICTIM-MIN', ok=okv)
                        if not okv:
                            V(res, prop, 'R-VICTIM-MIN', cm, b.where, 'victim is %s, not begin() of the count-ordered structure' % v.kind,
                              seg.effs('UNBIND')[0].site, 'full insert path [%s] evicts %r' % (val, v))
                    # find_with_use_count reports the count after the access
                    if m.name == 'find_with_use_count' and seg.cond('PRESENT') is True:
                        cnt = None
                        for e in seg.events:
                            if e[0] == 'ret' and isinstance(e[1], tuple) and e[1][0] == 'ctor' and e[1][2]:
                                p = e[1][2][0]
                                if isinstance(p, tuple) and p[0] == 'pair':
                                    cnt = p[2]
                        subj = lambda e: e.kind == 'FOUND'
                        if case == 'USE':
                            okc = isinstance(cnt, tuple) and cnt[0] == 'add' and cnt[2] == 1 and count_read_of(subj, cnt[1], roles, L)
                        else:
                            okc = count_read_of(subj, cnt, roles, L)
                        res.ob('R-COUNT-REPORT', ok=bool(okc))
                        if not okc:
                            V(res, prop, 'R-COUNT-REPORT', cm, b.where, 'reported use count is not the entry\'s count %s' % ('including this access' if case == 'USE' else '(peek)'),
                              site_of_seg(seg, m), 'find_with_use_count path [%s] reports %s' % (val, show(cnt) if cnt is not None else None))


# ---------------------------------------------------------------------------------------------- C14

def rule_c14(an, res):
    prop = 'C14'
    rule_counts(an, res, prop, containers=('lfuda_cache',))
    from rules_pos import rule_order
    rule_order(an, res, prop, ['lfuda_cache'])
    for cm, roles in an.classes(['lfuda_cache']):
        aux = roles.count_struct
        encodings = {}      # how the idle timer is kept: 'plain' (time of the last use) or 'due' (that time + tick) -> first site
        for m in an.entry_points(cm):
            k = ops.kind_of(m)
            for top in method_segments(an, cm, roles, m, res):
                clocks = clock_syms(top)
                for seg in top.all_segments():
                    for e in seg.effs('STAMP'):
                        encodings.setdefault(getattr(e, 'enc', 'plain'), (e.site, m, seg))
                    for c in seg.conds:
                        if c[0] in ('AGED', 'AGED_INCL'):
                            encodings.setdefault(c[1][2] if len(c[1]) > 2 else 'plain', (c[3], m, seg))
                # stamps
                if k in ('INSERT', 'FIND'):
                    for b in ops.find_bodies(top, m):
                        seg = b.seg
                        case = body_case(cm, roles, k, b)
                        st = seg.effs('STAMP')
                        val = ' '.join(seg.valuation())
                        if case in ('USE', 'BIND'):
                            tgt = seg.effs('BIND')[0].ent if case == 'BIND' and seg.effs('BIND') else None
                            ok = (len(st) == 1 and st[0].val in clocks and len(clocks) == 1
                                  and (st[0].ent.kind == 'FOUND' if case == 'USE' else same_ent(st[0].ent, tgt)))
                            res.ob('R-STAMP', ok=ok)
                            if not ok:
                                V(res, prop, 'R-STAMP', cm, b.where, '%s path does not restart the entry\'s idle timer with the call\'s clock sample' % case.lower(),
                                  first_site(st, seg, m), 'path [%s] stamps: %s' % (val, [repr(x) for x in st]))
                        elif case in ('NOOP', 'HIT', 'REMOVE'):
                            ok = not st
                            res.ob('R-STAMP', ok=ok)
                            if not ok:
                                V(res, prop, 'R-STAMP', cm, b.where, 'idle timer restarted on a path that is not a use', st[0].site, 'path [%s]' % val)
                # aging loops
                for seg in top.all_segments():
                    for lp, segs in seg.loops:
                        if not is_age_loop(segs):
                            continue
                        check_age_loop(res, prop, cm, roles, m, seg, lp, segs, clocks)
                        # counts decay only at aging points: a dynamically_age() call, or just before a victim is chosen
                        okp = k in ('AGE', 'INSERT')
                        res.ob('R-AGE-POINT', ok=okp)
                        if not okp:
                            V(res, prop, 'R-AGE-POINT', cm, where_of(m, seg), 'aging pass outside an aging point', lp.site,
                              '%s runs the aging pass; use counts decay only in dynamically_age() or just before an insert chooses its victim' % m.key())
                if k == 'AGE' and ops.nothing_to_do(top):
                    res.ob('R-AGE-TALLY', ok=True)
                elif k == 'AGE':
                    ok = len([1 for lp, segs in top.loops if is_age_loop(segs)]) == 1
                    r = top.ret
                    if ok:
                        lp, segs = next((lp, segs) for lp, segs in top.loops if is_age_loop(segs))
                        ok = isinstance(r, tuple) and r[0] == 'lv' and r[2] == lp.id
                        if ok:
                            name = ops.tally_var(r)
                            init = ops.local_writes(top, name, decl=True)
                            ok = len(init) == 1 and init[0].val == ('int', 0)
                            for s in segs:
                                incs = ops.local_writes(s, name)
                                want = 1 if s.effs('STAMP') else 0
                                good = [e for e in incs if ops.is_increment(e, name)]
                                if len(incs) != want or len(good) != want:
                                    ok = False
                    res.ob('R-AGE-TALLY', ok=ok)
                    if not ok:
                        V(res, prop, 'R-AGE-TALLY', cm, m.key(), 'dynamically_age does not return the number of aged entries', site_of_seg(top, m),
                          'returns %s' % (show(r) if r is not None else None))
                    okn = not [e for e in top.state_effects() if e.kind in ('UNBIND', 'BIND', 'CNT', 'PART')]
                    res.ob('R-AGE-NO-REMOVE', ok=okn)
                # age before the victim is chosen
                if k == 'INSERT':
                    for b in ops.find_bodies(top, m):
                        seg = b.seg
                        unb = seg.effs('UNBIND')
                        if not unb or seg.cond('PRESENT') is not False:
                            continue
                        pos_unb = seg.order.index(('eff', seg.effects.index(unb[0])))
                        age_before = [i for i, (kk, j) in enumerate(seg.order) if kk == 'loop' and is_age_loop(seg.loops[j][1]) and i < pos_unb]
                        v = unb[0].ent
                        ok = bool(age_before) and v.kind == 'AUXHEAD' and v.arg == aux
                        res.ob('R-AGE-BEFORE-VICTIM', ok=ok)
                        if not ok:
                            V(res, prop, 'R-AGE-BEFORE-VICTIM', cm, b.where, 'victim is not the minimum-count entry read after the aging pass', unb[0].site,
                              'full insert path [%s]: aging pass before the eviction: %s; victim %r' % (' '.join(seg.valuation()), bool(age_before), v))
        # one representation of the idle timer throughout: every stamp and every idle test agree on whether the stored instant is the
        # time of the last use or that time + tick
        res.ob('R-STAMP', ok=len(encodings) <= 1)
        if len(encodings) > 1:
            site, m2, seg2 = encodings['plain']
            V(res, prop, 'R-STAMP', cm, where_of(m2, seg2), 'idle timer kept in two different representations', site,
              'elsewhere the stored instant is (time of the last use + tick) and tested as `due < now`; here it is written / tested as the '
              'plain time of the last use: the entry becomes due a whole tick early')


def is_age_loop(segs):
    return any(s.effs('STAMP') and any(c[0] in ('AGED', 'AGED_INCL') for c in s.conds) for s in segs) or \
        any(any(c[0] in ('AGED', 'AGED_INCL') for c in s.conds) for s in segs)


def check_age_loop(res, prop, cm, roles, m, parent, lp, segs, clocks):
    aux = roles.count_struct
    bp = next((x for x, s in roles.backptrs.items() if s == aux), None)
    ok = True
    why = None
    exits = parent.loop_exits.get(id(lp), [])
    # the scan entity: the loop variable (or the list head itself) whose idle time is tested
    scan = None
    for s in segs + exits:
        for c in s.conds:
            if c[0] in ('AGED', 'AGED_INCL') and c[1][0].kind in ('LV', 'FRONT'):
                scan = c[1][0]
    pos = None
    for i, (k, j) in enumerate(parent.order):
        if k == 'loop' and parent.loops[j][0] is lp:
            pos = i
    inits = {}
    for k, j in parent.order[:pos]:
        if k == 'eff' and parent.effects[j].kind == 'LOCAL':
            inits[parent.effects[j].loc[1]] = parent.effects[j].val
    L = parent.L
    order = THIS(roles.order)
    part = THIS(roles.part)

    def is_begin(v):
        return isinstance(v, tuple) and v[0] == 'q' and v[1] in ('begin', 'cbegin') and v[2] == order

    def same_scan(e):
        return isinstance(e, Ent) and scan is not None and e.kind == scan.kind and (e.kind == 'FRONT' or e.arg == scan.arg)

    def scan_iter(t):
        """is t the iterator of the scan node"""
        if scan.kind == 'LV':
            return isinstance(t, tuple) and t[0] == 'lv' and t[1] == scan.arg
        return is_begin(t)

    if scan is None:
        ok, why = False, 'aging loop does not test an entry\'s idle time'
    elif scan.kind == 'LV':
        v0 = inits.get(scan.arg)
        if not is_begin(v0):
            ok, why = False, 'aging scan does not start at the oldest end of the age list'
    for s in segs:
        okf, _ = lift.feasible(s)
        if not okf or scan is None:
            continue
        aged = [c for c in s.conds if c[0] in ('AGED', 'AGED_INCL')]
        atp = [c for c in s.conds if c[0] == 'AT_PART' and same_scan(c[1][0])]
        if s.status == 'continue':
            if not (aged and aged[0][0] == 'AGED' and aged[0][2] is True and aged[0][1][1] in clocks):
                ok, why = False, 'an entry is aged without the strict test idle time > tick (age + tick < now) on the call\'s clock sample'
                continue
            if not (atp and atp[0][2] is False):
                ok, why = False, 'aging iteration not guarded by "scan position is a used node"'
            st = s.effs('STAMP')
            if not (len(st) == 1 and st[0].val in clocks and same_scan(st[0].ent)):
                ok, why = False, 'aged entry\'s idle timer is not restarted with the call\'s clock sample'
            adds = [e for e in s.effects if e.kind == 'AUX_ADD' and e.aux == aux]
            dels = [e for e in s.effects if e.kind == 'AUX_DEL' and e.aux == aux]
            bps = [e for e in s.effects if e.kind == 'BACKPTR' and e.field == bp]
            if not adds and not dels and not bps and any(
                    isinstance(t, tuple) and len(t) > 2 and t[0] == 'q' and t[1] in ('upper_bound', 'lower_bound', 'equal_range') and t[2] == THIS(aux)
                    for c in s.conds for t in lift.subterms(c[4])):
                # the re-file is skipped after looking at where the entry stands among the entries of equal count: whether erase +
                # emplace would put it back exactly there is multimap tie-order reasoning the model does not do
                msg = ('G-UNKNOWN aging re-file skipped depending on the entry\'s place among equal use counts (not modelled) in %s reached from %s::%s'
                       % (show_site(site_of_seg(s, m)), cm.name, m.key()))
                if msg not in res.incomplete:
                    res.incomplete.append(msg)
                continue
            if not (len(adds) == 1 and len(dels) == 1 and len(bps) == 1 and bps[0].val == adds[0].res
                    and same_scan(adds[0].ent) and same_scan(dels[0].ent) and same_scan(bps[0].ent)
                    and s.effects.index(dels[0]) < s.effects.index(bps[0])):
                ok, why = False, 'aged entry is not re-filed exactly once under its new count'
            else:
                key = adds[0].key
                if not scaled_count(key, scan, roles, bp, L):
                    ok, why = False, 'new count %s is not (size_t)(count * ratio) of the aged entry' % show(key)
            # placement: spliced before the previously aged node (initially the partition); the scan continues from begin()
            mv = s.effs('MOVE')
            loc_w = {e.loc[1]: e.val for e in s.effects if e.kind == 'LOCAL' and e.how != 'decl'}
            if scan.kind == 'LV':
                restart = loc_w.get(scan.arg)
                if not is_begin(restart):
                    ok, why = False, 'aging scan does not restart from the oldest end after moving an entry'
            lastv = [n for n, v in loc_w.items() if scan_iter(v)]
            if mv:
                d = mv[0].dest
                if not (isinstance(d, tuple) and d[0] == 'lv' and inits.get(d[1]) == ld0(part) and mv[0].nargs == 3
                        and scan_iter(mv[0].node) and d[1] in lastv):
                    ok, why = False, 'aged entry is not re-filed at the young end (before the previously aged node, initially the partition)'
            else:
                eq = [c for c in s.conds if (c[0] == 'LV_EQ' and c[2] is True) or
                      (c[0] == 'IS_FRONT' and c[2] is True and isinstance(c[1][0], Ent) and c[1][0].kind == 'LV' and inits.get(c[1][0].arg) == ld0(part))]
                if not eq:
                    ok, why = False, 'aged entry stays in place without being the young-end node'
        else:
            if s.effs('STAMP') or s.effs('AUX_ADD'):
                ok, why = False, 'aging on a path that leaves the loop'
            fine = (atp and atp[-1][2] is True and not aged) or (aged and aged[0][0] == 'AGED' and aged[0][2] is False)
            if not fine:
                ok, why = False, 'aging loop is left for a reason other than reaching the partition or a young entry (%s)' % ' '.join(s.valuation())
    for s in exits:
        aged = [c for c in s.conds if c[0] in ('AGED', 'AGED_INCL')]
        atp = [c for c in s.conds if c[0] == 'AT_PART']
        fine = (atp and atp[-1][2] is True and not aged) or (aged and aged[0][0] == 'AGED' and aged[0][2] is False)
        if not fine:
            ok, why = False, 'aging loop can stop for a reason other than reaching the partition or a young entry (%s)' % ' '.join(s.valuation())
    res.ob('R-AGE-LOOP', ok=ok)
    res.sample(dict(container=cm.name, method=where_of(m, parent), loop=str(lp.site[1]), iterations=[' '.join(s.valuation()) for s in segs]), cap=14)
    if not ok:
        V(res, prop, 'R-AGE-LOOP', cm, where_of(m, parent), why.split(' %')[0].split(' (')[0], lp.site, why)


def scaled_count(key, scan, roles, bp, L):
    """(size_t)( (float)count * ratio ) with count = the scan entry's own stored count, ratio = the configured field"""
    t = key
    casts = 0
    while isinstance(t, tuple) and t[0] == 'cast':
        casts += 1
        integral = 'long' in (t[1] or '') or 'int' in (t[1] or '') or 'size_t' in (t[1] or '')
        t = t[2]
        if isinstance(t, tuple) and t[0] == 'bin':
            if not integral:
                return False
            break
    if not (isinstance(t, tuple) and t[0] == 'bin' and t[1] == '*' and casts >= 1):
        return False
    a, b = t[2], t[3]

    def strip(x):
        while isinstance(x, tuple) and x[0] == 'cast':
            x = x[2]
        return x
    a, b = strip(a), strip(b)

    def is_count(x):
        if not (is_ld(x) and x[2][0] == 'fld' and x[2][2] == 'first' and x[2][1][0] == 'deref'):
            return False
        it = x[2][1][1]
        if not (is_ld(it) and it[2][0] == 'fld' and it[2][2] == bp):
            return False
        e = L.elem_entity(it[2][1])
        return e.kind == scan.kind and (e.kind == 'FRONT' or e.arg == scan.arg)
    for x, y in ((a, b), (b, a)):
        if is_count(x) and is_ld(y) and y[2] == THIS(roles.ratio):
            return True
    return False


# ---------------------------------------------------------------------------------------------- C15

def rule_c15(an, res):
    prop = 'C15'
    for cm, roles in an.classes(['rr_cache']):
        L = lift.Lifter(roles)
        part = THIS(roles.part)
        perm = THIS(roles.perm)
        # the engine is a member seeded from the random_device
        ctor = cm.ctor()
        seeded = False
        for p in an.paths(cm, ctor):
            for e in p.trace:
                if e[0] == 'init' and e[1] == THIS('m_mt'):
                    v = e[2]
                    seeded = isinstance(v, tuple) and v[0] == 'ctor' and len(v[2]) == 1 and isinstance(v[2][0], tuple) and v[2][0][0] == 'randdev'
        f = cm.field_by_name.get('m_mt')
        okf = f is not None and typeclass(f.type) == 'rng'
        res.ob('R-RNG-ENGINE', ok=seeded and okf)
        if not (seeded and okf):
            V(res, prop, 'R-RNG-ENGINE', cm, ctor.key(), 'engine is not a mersenne twister member seeded from random_device', ctor.loc and (ctor.loc[0], ctor.loc[1], ''),
              'm_mt: %s, seeded from random_device: %s' % (f.type if f else None, seeded))
        for m in an.entry_points(cm):
            k = ops.kind_of(m)
            for top in method_segments(an, cm, roles, m, res):
                for seg in top.all_segments():
                    okf2, _ = lift.feasible(seg)
                    if not okf2:
                        continue
                    draws = seg.effs('RNG_DRAW')
                    val = ' '.join(seg.valuation())
                    for e in seg.effs('OTHER_CALL'):
                        from symex import root_of
                        r0 = root_of(e.recv)
                        if r0[0] == 'field' and r0[1] in (getattr(roles, 'rng', None) or []):
                            res.ob('R-RNG-ENGINE', ok=False)
                            V(res, prop, 'R-RNG-ENGINE', cm, where_of(m, seg), 'random engine manipulated outside the draw: %s()' % e.name, e.site,
                              'path [%s]: %s.%s(...) - re-seeding / discarding changes which residents can be chosen' % (val, r0[1], e.name))
                    if k != 'INSERT' or seg.cond('PRESENT') is not False or seg.cond('FULL') is not True:
                        ok = not draws
                        if draws:
                            res.ob('R-RNG-ONLY-ON-EVICT', ok=False)
                            V(res, prop, 'R-RNG-ONLY-ON-EVICT', cm, where_of(m, seg), 'random draw on a path that does not evict', draws[0].site, 'path [%s]' % val)
                        continue
                    unb = seg.effs('UNBIND')
                    ok = True
                    why = None
                    if len(draws) != 1:
                        ok, why = False, '%d random draws on an evicting insert' % len(draws)
                    else:
                        d = draws[0]
                        dist = d.dist
                        good_dist = (isinstance(dist, tuple) and dist[0] == 'ctor' and typeclass(dist[1]) == 'dist' and 'unsigned long' in dist[1]
                                     and len(dist[2]) == 2 and dist[2][0] == ('int', 0)
                                     and dist[2][1] == ('add', ld0(part), -1))
                        if not good_dist:
                            ok, why = False, 'victim position is not drawn from uniform_int_distribution<size_t>{0, size-1} (got %s)' % show(dist)
                        elif d.engine != THIS('m_mt'):
                            ok, why = False, 'draw does not use the member engine'
                        elif seg.cond('NONEMPTY') is not True and seg.cond('FULL') is not True:
                            ok, why = False, 'draw not dominated by a non-empty test (size-1 underflows)'
                        elif len(unb) != 1:
                            ok, why = False, '%d removals' % len(unb)
                        else:
                            v = unb[0].ent
                            from rules_misc import raw_draw_is_bound_slot
                            if v.kind == 'RAWRNG' and v.arg == d.sym[1] and raw_draw_is_bound_slot(seg, v):
                                pass      # full cache: slot indices and open-list positions range over the same, entirely bound, set
                            elif not (v.kind == 'RANDPOS' and v.arg == d.sym[1]):
                                ok, why = False, ('the drawn position is used as %s instead of being mapped through the open list '
                                                  '(victim must be m_open_list[position])' % v.kind)
                            # removal before the bind
                            binds = seg.effs('BIND')
                            if ok and not (binds and seg.effects.index(unb[0]) < seg.effects.index(binds[0])):
                                ok, why = False, 'victim removed after (or without) binding the new key'
                    res.ob('R-RNG-BOUNDS', ok=ok)
                    res.sample(dict(container=cm.name, method=where_of(m, seg), valuation=val, draw=repr(draws[0]) if draws else None), cap=6)
                    if not ok:
                        V(res, prop, 'R-RNG-BOUNDS', cm, where_of(m, seg), why.split(' (')[0], first_site(draws or unb, seg, m), 'evicting insert path [%s]: %s' % (val, why))
                    check_perm_backptr(res, prop, cm, roles, m, seg)
                if k in ('ERASE', 'FIND', 'INSERT'):
                    for seg in top.all_segments():
                        okf2, _ = lift.feasible(seg)
                        if okf2 and seg.effs('PERM_WR'):
                            check_perm_backptr(res, prop, cm, roles, m, seg)
                        if okf2 and seg.effs('UNBIND'):
                            check_rr_remove(res, prop, cm, roles, m, seg)


def check_perm_backptr(res, prop, cm, roles, m, seg):
    """R-PERM-BACKPTR: every write m_open_list[p] := v is matched by m_elements[v].m_open_list_position := p unless position p is freed"""
    part = THIS(roles.part)
    cnt = [e for e in seg.effects if e.kind == 'CNT']
    final = cnt[-1].delta if cnt else 0
    val = ' '.join(seg.valuation())
    for w in seg.effs('PERM_WR'):
        p, v = w.pos, w.val
        # freed position: p == old_end - 1 and the partition shrank
        freed = (p == ('add', ld0(part), -1) and final is not None and final <= -1)
        if freed:
            res.ob('R-PERM-BACKPTR', ok=True)
            continue
        # the slot id written: value term v (a slot id); find BACKPTR on the element of slot v with value p
        match = False
        for b in seg.effects:
            if b.kind == 'BACKPTR' and b.field == 'm_open_list_position' and b.val == p:
                # element written must be m_elements[<slot now at p>]; after the write the slot at p is v
                loc = b.loc
                if loc[0] == 'fld' and loc[1][0] == 'idx' and loc[1][1] == THIS(roles.slots) and loc[1][2] == v:
                    # v is the slot id as a VALUE (the load that the swap / store moves to p): the element it names is the same whether
                    # its position is refreshed after the entry is moved or just before - unless a later store overrides it
                    later = [b2 for b2 in seg.effects[seg.effects.index(b) + 1:] if b2.kind == 'BACKPTR' and b2.field == b.field
                             and b2.loc == b.loc and b2.val != p]
                    if not later:
                        match = True
        res.ob('R-PERM-BACKPTR', ok=match)
        if not match:
            V(res, prop, 'R-PERM-BACKPTR', cm, where_of(m, seg), 'open-list entry moved without refreshing the moved element\'s stored position',
              w.site, 'path [%s]: m_open_list[%s] := %s but no m_elements[that slot].m_open_list_position := %s afterwards'
              % (val, show(p), show(v), show(p)))


def check_rr_remove(res, prop, cm, roles, m, seg):
    """rr: the open-list position that a removal frees (the last in-use one) must hold the removed slot: either the path established
    that the slot already sits there, or it swapped the slot into it"""
    L = seg.L
    part = THIS(roles.part)
    last = ('add', ld0(part), -1)
    val = ' '.join(seg.valuation())
    for u in seg.effs('UNBIND'):
        E = u.ent
        at_last = any(c[0] == 'IS_LAST_USED' and c[2] is True and isinstance(c[1][0], Ent) and same_ent(c[1][0], E) for c in seg.conds)
        swapped = False
        for w in seg.effs('PERM_WR'):
            if w.pos == last:
                e2 = L.sid_entity(w.val)
                if same_ent(e2, E) or (e2.kind == 'POSOF' and e2.arg == E.key()):
                    swapped = True
        ok = at_last or swapped
        res.ob('R-PERM-FREED-IS-VICTIM', ok=ok)
        if not ok:
            V(res, prop, 'R-PERM-FREED-IS-VICTIM', cm, where_of(m, seg), 'removal frees the last in-use open-list position without the removed slot being there',
              u.site, 'path [%s]: slot %r is unbound and the partition shrinks, but nothing establishes that the slot occupies position size-1 '
              '(neither a test of its stored position nor a swap into it): another live slot is cut off' % (val, E))
