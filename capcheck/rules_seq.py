"""Sequential rules over lifted path summaries: C02, C03, C09, C19 (DESIGN.md section 6)."""
import itertools

import lift
import ops
from lift import Ent, is_ld, ld0
from model import THIS, TTL_CONTAINERS, CACHES
from report import Violation
from symex import show, show_site

TTL_CACHES = ('tlru_cache', 'utlru_cache')


def V(res, prop, rule, cm, where, desc, site, msg, **detail):
    res.violate(Violation(prop, rule, cm.name, where, desc, site, msg, detail))


def method_segments(an, cm, roles, m, res=None):
    keep, pruned = lift.segments_of(an, cm, roles, m)
    if res is not None:
        res.count('paths', len(keep))
        res.count('paths_pruned_infeasible', len(pruned))
        for s, why in pruned[:1]:
            res.counts.setdefault('_pruned_reasons', set()).add(why)
    return keep


def site_of_seg(seg, m):
    for e in seg.events:
        if e[0] in ('cond',):
            return e[3]
    return (m.loc[0], m.loc[1], m.key()) if m.loc else None


def first_site(effs, seg, m):
    return effs[0].site if effs else site_of_seg(seg, m)


# ---------------------------------------------------------------------------------------------- classification

def found_expired(seg):
    """truth of EXPIRED(FOUND(k)) on this segment (inclusive form), None if undecided"""
    for c in seg.conds:
        if c[0] in ('EXPIRED', 'EXPIRED_STRICT') and isinstance(c[1][0], Ent) and c[1][0].kind == 'FOUND':
            return c[2]
    return None


def actual_class(effs):
    kinds = [e.kind for e in effs]
    if not effs:
        return 'REJECT'
    if 'BIND' in kinds:
        return 'BIND'
    if any(k in kinds for k in ('VAL', 'DEADLINE', 'AUX_MOVE', 'MOVE', 'AUX_ADD', 'AUX_DEL', 'STAMP', 'BACKPTR')) and 'UNBIND' not in kinds:
        return 'UPDATE'
    return 'OTHER'


def expected_insert_classes(cm, present, upd, ins, expired):
    """set of outcome classes the allow table demands over all completions of a partial valuation"""
    out = set()
    ttl = cm.name in TTL_CACHES
    for u, i, x in itertools.product((True, False), (True, False), (True, False)):
        if upd is not None and u != upd or ins is not None and i != ins:
            continue
        if not (u or i):
            continue          # allow has at least one bit set
        if expired is not None and x != expired:
            continue
        if not ttl and x:
            continue          # no expiry notion inside non-TTL caches / after purge in ut_*
        if present:
            if u:
                out.add('UPDATE')
            elif i and ttl and x:
                out.add('UPDATE')
            else:
                out.add('REJECT')
        else:
            out.add('BIND' if i else 'REJECT')
    return out


def ret_truth(seg):
    r = seg.ret
    if isinstance(r, tuple) and r[0] == 'bool':
        return r[1]
    return None


def tally_info(top, body):
    """for a loop-iteration body: (tally variable name returned by the method, increments in this iteration)"""
    ret = top.ret
    name = None
    if isinstance(ret, tuple) and ret[0] == 'lv':
        name = ret[1]
    elif isinstance(ret, tuple) and ret[0] == 'var':
        name = ret[1]
    incs = []
    for e in body.seg.effects:
        if e.kind == 'LOCAL' and isinstance(e.loc, tuple) and e.loc[0] == 'var' and e.loc[1] == name:
            incs.append(e)
    return name, incs


# ---------------------------------------------------------------------------------------------- C09 + C19

def check_allow_encoding(an, res):
    """R-ALLOW-ENC: enumerators are distinct bits, insert_or_update = insert|update; predicates are bit tests"""
    prog = an.prog
    en = prog.enums.get('allow')
    vals = {}
    if en is None:
        res.incomplete.append('G-ANCHOR: enum cappuccino::allow not found')
        return
    for c in en.get('inner', []):
        if c.get('kind') == 'EnumConstantDecl':
            v = const_eval(c.get('inner', [{}])[0], vals)
            vals[c['name']] = v
    ok = (set(vals) >= {'insert', 'update', 'insert_or_update'} and None not in vals.values()
          and vals['insert'] != 0 and vals['update'] != 0 and vals['insert'] & vals['update'] == 0
          and vals['insert_or_update'] == vals['insert'] | vals['update'])
    res.ob('R-ALLOW-ENC', ok=ok)
    if not ok:
        res.violate(Violation(res.prop, 'R-ALLOW-ENC', 'allow', 'enum allow', 'allow enumerators are not disjoint bits with insert_or_update = insert|update',
                              en.get('_loc'), 'values: %r' % vals))
    want = {'insert_allowed': {'insert': True, 'update': False, 'insert_or_update': True},
            'update_allowed': {'insert': False, 'update': True, 'insert_or_update': True}}
    for fn, table in want.items():
        f = prog.funcs.get(fn)
        if f is None:
            res.incomplete.append('G-ANCHOR: function %s not found' % fn)
            continue
        body = next(c for c in f['inner'] if c.get('kind') == 'CompoundStmt')
        rets = [n for n in walk(body) if n.get('kind') == 'ReturnStmt']
        parm = next((c for c in f['inner'] if c.get('kind') == 'ParmVarDecl'), None)
        for name, expect in table.items():
            got = None
            if len(rets) == 1 and parm is not None:
                v = const_eval(rets[0]['inner'][0], vals, {parm['id']: vals.get(name)})
                got = None if v is None else bool(v)
            ok = got == expect
            res.ob('R-ALLOW-ENC', ok=ok)
            if not ok:
                res.violate(Violation(res.prop, 'R-ALLOW-ENC', 'allow', fn, '%s(allow::%s) must be %s' % (fn, name, expect),
                                      f.get('_loc'), '%s(allow::%s) evaluates to %s by AST constant evaluation' % (fn, name, got)))


def walk(n):
    yield n
    for c in n.get('inner', []) or []:
        if isinstance(c, dict):
            yield from walk(c)


def const_eval(n, enums, params=None):
    if not isinstance(n, dict):
        return None
    k = n.get('kind')
    inner = [c for c in n.get('inner', []) if isinstance(c, dict) and c.get('kind')]
    if k == 'ConstantExpr':
        if 'value' in n:
            try:
                return int(n['value'])
            except ValueError:
                pass
        return const_eval(inner[0], enums, params) if inner else None
    if k in ('ImplicitCastExpr', 'ParenExpr', 'CStyleCastExpr', 'CXXStaticCastExpr', 'CXXFunctionalCastExpr', 'ExprWithCleanups'):
        v = const_eval(inner[0], enums, params) if inner else None
        if k == 'ImplicitCastExpr' and n.get('castKind') == 'IntegralToBoolean' and v is not None:
            return 1 if v else 0
        return v
    if k == 'IntegerLiteral':
        return int(n['value'])
    if k == 'CXXBoolLiteralExpr':
        return 1 if n['value'] else 0
    if k == 'DeclRefExpr':
        r = n['referencedDecl']
        if r.get('kind') == 'EnumConstantDecl':
            return enums.get(r.get('name'))
        if params and r.get('id') in params:
            return params[r['id']]
        return None
    if k == 'BinaryOperator':
        a, b = const_eval(inner[0], enums, params), const_eval(inner[1], enums, params)
        if a is None or b is None:
            return None
        op = n['opcode']
        try:
            return {'&': a & b, '|': a | b, '^': a ^ b, '+': a + b, '-': a - b, '==': int(a == b), '!=': int(a != b),
                    '&&': int(bool(a) and bool(b)), '||': int(bool(a) or bool(b)), '<<': a << b, '>>': a >> b,
                    '<': int(a < b), '>': int(a > b), '<=': int(a <= b), '>=': int(a >= b)}[op]
        except KeyError:
            return None
    if k == 'UnaryOperator':
        a = const_eval(inner[0], enums, params)
        if a is None:
            return None
        return {'!': int(not a), '~': ~a, '-': -a, '+': a}.get(n['opcode'])
    return None


def insert_bodies(an, cm, roles, res):
    for m in an.entry_points(cm):
        if ops.kind_of(m) != 'INSERT':
            continue
        for top in method_segments(an, cm, roles, m, res):
            bodies = ops.find_bodies(top, m)
            yield m, top, bodies


def rule_insert_table(an, res, prop):
    """R-INSERT-TABLE / R-REJECT-PURE / R-TALLY (C09); the same walk feeds C19's rejected-insert clause"""
    for cm, roles in an.classes():
        for m, top, bodies in insert_bodies(an, cm, roles, res):
            if not bodies and not top.loops:
                # an insert path that never consults the index
                res.ob('R-INSERT-TABLE', ok=False)
                V(res, prop, 'R-INSERT-TABLE', cm, m.key(), 'insert path does not consult the index', site_of_seg(top, m),
                  'no presence test on this path of %s' % m.key())
            for b in bodies:
                seg = b.seg
                present = seg.cond('PRESENT')
                upd, ins = seg.cond('UPD_OK'), seg.cond('INS_OK')
                exp = found_expired(seg) if cm.name in TTL_CACHES else None
                effs = ops.body_effects(b, roles)
                cls = actual_class(effs)
                want = expected_insert_classes(cm, present, upd, ins, exp)
                val = ' '.join(seg.valuation())
                if not want:
                    res.count('paths_pruned_infeasible')      # allow always has at least one bit set
                    continue
                ok = (len(want) == 1 and cls in want)
                if prop == 'C09':
                    res.ob('R-INSERT-TABLE', ok=ok)
                    res.sample(dict(container=cm.name, method=b.where, valuation=val, outcome=cls, expected=sorted(want)), cap=10)
                    if not ok:
                        d = 'presence=%s update_allowed=%s insert_allowed=%s%s -> %s, table demands %s' % (
                            present, upd, ins, '' if exp is None else ' expired=%s' % exp, cls, '/'.join(sorted(want)))
                        V(res, prop, 'R-INSERT-TABLE', cm, b.where, d, first_site(effs, seg, m),
                          'insert path [%s] has outcome %s but the allow table demands %s' % (val, cls, sorted(want)),
                          effects=[repr(e) for e in effs][:8])
                    # returned bool / tally
                    success = cls in ('BIND', 'UPDATE')
                    if b.in_loop is None:
                        rt = ret_truth(seg)
                        okr = (rt == success) if cls != 'OTHER' else True
                        res.ob('R-RETURN-TRUTH', ok=okr)
                        if not okr:
                            V(res, prop, 'R-RETURN-TRUTH', cm, b.where, 'returns %s on a path whose outcome is %s' % (rt, cls),
                              site_of_seg(seg, m), 'insert reports %s but the write %s take effect [%s]' % (rt, 'did' if success else 'did not', val))
                    else:
                        name, incs = tally_info(b.top, b)
                        n_inc = 0
                        good = name is not None
                        for e in incs:
                            if e.how == 'decl':
                                continue
                            if isinstance(e.val, tuple) and e.val[0] == 'add' and e.val[2] == 1 and e.val[1][0] == 'lv' and e.val[1][1] == name:
                                n_inc += 1
                            else:
                                good = False
                        okr = good and (n_inc == (1 if success else 0) or cls == 'OTHER')
                        res.ob('R-TALLY', ok=okr)
                        if not okr:
                            V(res, prop, 'R-TALLY', cm, b.where, 'tally changes by %s on a path whose outcome is %s' % (n_inc if good else '?', cls),
                              site_of_seg(seg, m), 'insert_range count is not the number of writes that took effect [%s]' % val)
                if 'REJECT' in want and len(want) == 1:
                    okp = not effs and not ops.nonpurge_loop_effects(b, roles)
                    res.ob('R-REJECT-PURE', ok=okp)
                    if not okp:
                        V(res, prop, 'R-REJECT-PURE', cm, b.where, 'rejected insert changes state: ' + ','.join(sorted(set(e.kind for e in effs))),
                          first_site(effs, seg, m), 'rejected insert [%s] has effects %s' % (val, [repr(e) for e in effs][:4]))
            # tally plumbing of the range method itself
            if prop == 'C09' and any(b.in_loop is not None for b in bodies):
                name = top.ret[1] if isinstance(top.ret, tuple) and top.ret[0] in ('lv', 'var') else None
                init = [e for e in top.effects if e.kind == 'LOCAL' and e.how == 'decl' and e.loc[1] == name]
                ok = name is not None and len(init) == 1 and init[0].val == ('int', 0)
                post = [e for e in top.effects if e.kind == 'LOCAL' and e.how != 'decl' and e.loc[1] == name]
                ok = ok and not post
                res.ob('R-TALLY', ok=ok)
                if not ok:
                    V(res, prop, 'R-TALLY', cm, m.key(), 'range insert does not return a tally that starts at 0', site_of_seg(top, m),
                      'returned %s; initialisations %s; adjustments outside the loop %s' % (show(top.ret) if top.ret is not None else None,
                                                                                        [repr(e) for e in init], [repr(e) for e in post]))


def remove_group_ok(effs, ent):
    """effects consist solely of the REMOVE of entity `ent`"""
    for e in effs:
        if e.kind in ('CNT', 'PART'):
            if e.delta not in (-1, 0):
                return False
        elif e.kind in ('UNBIND', 'AUX_DEL', 'MOVE', 'BACKPTR'):
            if not same_ent(e.ent, ent):
                return False
        elif e.kind in ('SWAP', 'PERM_WR'):
            continue
        else:
            return False
    return any(e.kind == 'UNBIND' for e in effs)


def same_ent(a, b):
    if a is None or b is None:
        return False
    if a.key() == b.key():
        return True
    # rr: the slot stored at the position of E is E (RI), ATPART(-1) after swap is handled by POS rules
    if a.kind == 'POSOF' and a.arg == b.key() or b.kind == 'POSOF' and b.arg == a.key():
        return True
    if a.kind == 'SELF' and a.arg[0] == b.key() or b.kind == 'SELF' and b.arg[0] == a.key():
        return True
    return False


def rule_noninterference(an, res):
    """C19: peek hits, misses, rejected inserts, absent-key erases have no effect on container state"""
    prop = 'C19'
    rule_insert_table(an, res, prop)
    for cm, roles in an.classes():
        for m in an.entry_points(cm):
            k = ops.kind_of(m)
            if k not in ('FIND', 'ERASE'):
                continue
            for top in method_segments(an, cm, roles, m, res):
                bodies = ops.find_bodies(top, m)
                if not bodies and not top.loops:
                    res.ob('R-PURE-NOOP', ok=False)
                    V(res, prop, 'R-PURE-NOOP', cm, m.key(), 'path does not consult the index', site_of_seg(top, m),
                      'no presence test on this path of %s' % m.key())
                for b in bodies:
                    seg = b.seg
                    present = seg.cond('PRESENT')
                    effs = ops.body_effects(b, roles)
                    extra = ops.nonpurge_loop_effects(b, roles)
                    val = ' '.join(seg.valuation())
                    case = None
                    if present is False:
                        case = 'miss' if k == 'FIND' else 'absent-erase'
                        ok = not effs and not extra
                    elif k == 'FIND':
                        exp = found_expired(seg) if cm.name in TTL_CACHES else None
                        peek = seg.cond('PEEK')
                        if exp is True:
                            case = 'expired-hit'
                            fk = next(c[1][0] for c in seg.conds if c[0] in ('EXPIRED', 'EXPIRED_STRICT') and c[1][0].kind == 'FOUND')
                            ok = remove_group_ok(effs, fk) and not extra
                        elif peek is True:
                            case = 'peek-hit'
                            ok = not effs and not extra
                    if case is None:
                        continue
                    res.ob('R-PURE-NOOP', ok=ok)
                    res.sample(dict(container=cm.name, method=b.where, case=case, valuation=val, effects=[repr(e) for e in effs][:4]), cap=10)
                    if not ok:
                        kinds = ','.join(sorted(set(e.kind for e in effs) | set(e.kind for _, e in extra)))
                        V(res, prop, 'R-PURE-NOOP', cm, b.where, '%s changes state: %s' % (case, kinds), first_site(effs, seg, m),
                          '%s path [%s] must leave the container untouched%s but has effects %s'
                          % (case, val, ' (apart from removing the expired entry itself)' if case == 'expired-hit' else '',
                             [repr(e) for e in effs][:5]))


def rule_c09(an, res):
    check_allow_encoding(an, res)
    rule_insert_table(an, res, 'C09')
