"""Sequential rules over lifted path summaries: C02, C03, C09, C19 (DESIGN.md section 6)."""
import itertools

import lift
import ops
from lift import Ent, is_ld, ld0
from model import THIS, TTL_CONTAINERS, CACHES
from report import Violation
from symex import show, show_site

TTL_CACHES = ('tlru_cache', 'utlru_cache')


def V(res, prop, rule, cm, where, desc, site, msg, **detail):
    res.violate(Violation(prop, rule, cm.name, where, desc, site, msg, detail))


def method_segments(an, cm, roles, m, res=None):
    keep, pruned = lift.segments_of(an, cm, roles, m)
    if res is not None:
        res.count('paths', len(keep))
        res.count('paths_pruned_infeasible', len(pruned))
        for s, why in pruned[:1]:
            res.counts.setdefault('_pruned_reasons', set()).add(why)
        if True:
            note = walking_iterator_slot(keep)
            if note is not None:
                msg = ('G-UNKNOWN slot named through a loop-carried iterator / an element of a local container (%s): not modelled for the '
                       'caches in %s reached from %s::%s' % (note[0], show_site(note[1]), cm.name, m.key()))
                if msg not in res.incomplete:
                    res.incomplete.append(msg)
        derived = next((e for top in keep for sg in top.all_segments() for e in sg.effects
                        if e.kind == 'CNT' and isinstance(getattr(e, 'val', None), tuple) and len(e.val) > 4 and e.val[0] == 'q'
                        and e.val[1] == 'size' and e.val[2] == top.L.index), None)
        if derived is not None:
            msg = ('G-UNKNOWN the element counter is re-derived from the size of the key index when the call leaves, not maintained step '
                   'by step: per-operation bookkeeping is not compared in %s reached from %s::%s' % (show_site(derived.site), cm.name, m.key()))
            if msg not in res.incomplete:
                res.incomplete.append(msg)
        note = counted_effect_loop(keep)
        if note is not None:
            msg = ('G-UNKNOWN a loop that changes the container is limited by a local count (%s): how often it runs is not modelled '
                   'in %s reached from %s::%s' % (note[0], show_site(note[1]), cm.name, m.key()))
            if msg not in res.incomplete:
                res.incomplete.append(msg)
        note = local_key_copy(keep)
        if note is not None:
            msg = ('G-UNKNOWN the keys are looked up from a local copy of the caller\'s range (%s) and the answers are stitched to them '
                   'afterwards: two-phase delivery is not modelled in %s reached from %s::%s' % (note[0], show_site(note[1]), cm.name, m.key()))
            if msg not in res.incomplete:
                res.incomplete.append(msg)
        note = size_probe(keep)
        if note is not None:
            msg = ('G-UNKNOWN presence decided by comparing the index size before and after an insertion (%s): insert-then-undo is not '
                   'modelled in %s reached from %s::%s' % (note[0], show_site(note[1]), cm.name, m.key()))
            if msg not in res.incomplete:
                res.incomplete.append(msg)
        note = expired_reinsertion(keep)
        if note is not None:
            msg = ('G-UNKNOWN an expired entry is erased and its key inserted again within one operation (%s): judged only as update in '
                   'place or as plain insert, not as the combination in %s reached from %s::%s' % (note[0], show_site(note[1]), cm.name, m.key()))
            if msg not in res.incomplete:
                res.incomplete.append(msg)
    return keep


def counted_effect_loop(tops):
    """(condition, site) of a loop iteration that changes container state and is admitted by comparing a loop-carried local integer
    with a bound (`while (expired < limit && ...) { erase...; ++expired; }`) - unless a recognised counting idiom already gave the
    comparison a meaning (countdown / scan-bound guards are rewritten before this point)"""
    for top in tops:
        for seg in top.all_segments():
            if seg.loop is None or not seg.state_effects():
                continue
            for c in seg.conds:
                raw = c[4]
                if c[0] != 'OTHER' or not (isinstance(raw, tuple) and len(raw) == 4 and raw[0] == 'cmp' and raw[1] in ('<', '<=', '>', '>=')):
                    continue
                # (a walk over the caller's range by index / iterator is not meant: the loop must also be steered by the container's
                # own state - "while fewer than `limit` done AND the head is expired")
                if not any(d[0] in ('EXPIRED', 'EXPIRED_STRICT', 'NONEMPTY', 'AUX_NONEMPTY', 'AT_PART', 'FULL', 'AGED', 'AGED_INCL') for d in seg.conds):
                    continue
                for a, b in ((raw[2], raw[3]), (raw[3], raw[2])):
                    if isinstance(a, tuple) and a[:1] == ('lv',) and len(a) > 2 and a[2] == seg.loop.id and \
                            isinstance(b, tuple) and b[:1] in (('int',), ('p',)):
                        steps = [e for e in seg.effects if e.kind == 'LOCAL' and isinstance(e.loc, tuple) and len(e.loc) > 1 and e.loc[1] == a[1]]
                        if steps:
                            return show(raw), c[3]
    return None


def local_key_copy(tops):
    """(term, site) if some loop body consults the index with the current element of a LOCAL container (a copy of the key range)"""
    for top in tops:
        for seg in top.all_segments():
            for c in seg.conds_of('PRESENT'):
                k = c[1][0]
                k = k[2] if is_ld(k) else k
                if isinstance(k, tuple) and k[:1] == ('elem',) and isinstance(k[1], tuple) and k[1][:1] == ('var',):
                    return show(k), c[3]
    return None


def size_probe(tops):
    """(term, site) of a condition that compares the key index's size() taken at two different moments"""
    for top in tops:
        idx = top.L.index
        for seg in top.all_segments():
            for c in seg.conds:
                raw = c[4]
                if isinstance(raw, tuple) and len(raw) == 4 and raw[0] == 'cmp':
                    a, b = raw[2], raw[3]
                    if all(isinstance(x, tuple) and len(x) > 4 and x[0] == 'q' and x[1] == 'size' and x[2] == idx for x in (a, b)) and a[4] != b[4]:
                        return show(raw), c[3]
    return None


def expired_reinsertion(tops):
    """(key, site) if some path removes the entry found for key k after establishing that it is expired and binds k again"""
    for top in tops:
        for seg in top.all_segments():
            unb = [e for e in seg.effs('UNBIND') if isinstance(e.ent, Ent) and e.ent.kind == 'FOUND']
            if not unb:
                continue
            for u in unb:
                k = u.ent.arg
                expired = any(c[0] in ('EXPIRED', 'EXPIRED_STRICT') and c[2] is True and isinstance(c[1][0], Ent) and c[1][0].kind == 'FOUND'
                              and c[1][0].arg == k for c in seg.conds)
                if expired and any(b.key == k for b in seg.effs('BIND')):
                    return show(k), u.site
    return None


def walking_iterator_slot(tops):
    """(term, site) of a slot that some effect names only through `*it` with `it` a loop-carried local iterator, else None"""
    def has_lv_deref(t, depth=0):
        if not isinstance(t, tuple) or depth > 12:
            return False
        if t and t[0] == 'deref' and len(t) > 1 and isinstance(t[1], tuple) and t[1] and t[1][0] == 'lv':
            return True
        if t and t[0] == 'deref' and len(t) > 1 and isinstance(t[1], tuple):
            inner = t[1][2] if (t[1][:1] == ('ld',) and len(t[1]) == 3) else t[1]
            if isinstance(inner, tuple) and inner[:1] == ('elem',) and len(inner) > 1 and isinstance(inner[1], tuple) and \
                    (inner[1][:1] == ('var',) or (inner[1][:1] == ('fld',) and isinstance(inner[1][1], tuple) and inner[1][1][:1] == ('var',))):
                return True   # `*p` with p an element of a local container (pointers / iterators collected in an earlier loop)
        return any(has_lv_deref(x, depth + 1) for x in t if isinstance(x, tuple))
    def local_container(c):
        # a local container, or a container member of a local helper object (`reaper.m_doomed`)
        while isinstance(c, tuple) and c[:1] == ('fld',) and len(c) == 3:
            c = c[1]
        return isinstance(c, tuple) and c[:1] == ('var',)

    def is_local_elem(t):
        if isinstance(t, tuple) and t[:1] == ('ld',) and len(t) == 3:
            t = t[2]
        return isinstance(t, tuple) and t[:1] == ('elem',) and len(t) > 1 and isinstance(t[1], tuple) and local_container(t[1])
    for top in tops:
        kind = top.L.r.kind
        for seg in top.all_segments():
            for e in seg.effects:
                ent = getattr(e, 'ent', None)
                if not isinstance(ent, Ent) or e.kind not in ('UNBIND', 'BIND', 'VAL', 'AUX_DEL', 'AUX_ADD', 'MOVE', 'BACKPTR', 'DEADLINE'):
                    continue
                term = getattr(ent, 'term', None)
                if ent.kind == 'OTHER' and (has_lv_deref(term) or is_local_elem(term)):
                    return show(term), e.site
                if ent.kind == 'LV' and kind == 'slotvec':
                    # a slot index that is a loop counter (sweeping all slots and acting on the marked ones)
                    return 'slot index %s' % ent.arg, e.site
    return None


def site_of_seg(seg, m):
    for e in seg.events:
        if e[0] in ('cond',):
            return e[3]
    return (m.loc[0], m.loc[1], m.key()) if m.loc else None


def first_site(effs, seg, m):
    return effs[0].site if effs else site_of_seg(seg, m)


# ---------------------------------------------------------------------------------------------- classification

def found_expired(seg):
    """truth of EXPIRED(FOUND(k)) on this segment (inclusive form), None if undecided"""
    for c in seg.conds:
        if c[0] in ('EXPIRED', 'EXPIRED_STRICT') and isinstance(c[1][0], Ent) and c[1][0].kind == 'FOUND':
            return c[2]
    return None


def actual_class(effs):
    kinds = [e.kind for e in effs]
    if not effs:
        return 'REJECT'
    if 'BIND' in kinds:
        return 'BIND'
    if any(k in kinds for k in ('VAL', 'DEADLINE', 'AUX_MOVE', 'MOVE', 'AUX_ADD', 'AUX_DEL', 'STAMP', 'BACKPTR')) and 'UNBIND' not in kinds:
        return 'UPDATE'
    return 'OTHER'


def expected_insert_classes(cm, present, upd, ins, expired):
    """set of outcome classes the allow table demands over all completions of a partial valuation"""
    out = set()
    ttl = cm.name in TTL_CACHES
    for u, i, x in itertools.product((True, False), (True, False), (True, False)):
        if upd is not None and u != upd or ins is not None and i != ins:
            continue
        if not (u or i):
            continue          # allow has at least one bit set
        if expired is not None and x != expired:
            continue
        if not ttl and x:
            continue          # no expiry notion inside non-TTL caches / after purge in ut_*
        if present:
            if u:
                out.add('UPDATE')
            elif i and ttl and x:
                out.add('UPDATE')
            else:
                out.add('REJECT')
        else:
            out.add('BIND' if i else 'REJECT')
    return out


def ret_truth(seg):
    r = seg.ret
    if isinstance(r, tuple) and r[0] == 'bool':
        return r[1]
    if isinstance(r, tuple) and r and r[0] in ('cmp', 'not', 'pred', 'hasval'):
        return seg.decided(r)       # `return present;` where the path branched on that very condition
    return None


def tally_info(top, body):
    """for a loop-iteration body: (tally variable returned by the method, its writes in this iteration)"""
    var = ops.tally_var(top.ret)
    incs = ops.local_writes(body.seg, var) if var is not None else []
    return var, incs


# ---------------------------------------------------------------------------------------------- C09 + C19

def check_allow_encoding(an, res):
    """R-ALLOW-ENC: enumerators are distinct bits, insert_or_update = insert|update; predicates are bit tests"""
    prog = an.prog
    en = prog.enums.get('allow')
    vals = {}
    if en is None:
        res.incomplete.append('G-ANCHOR: enum cappuccino::allow not found')
        return
    for c in en.get('inner', []):
        if c.get('kind') == 'EnumConstantDecl':
            v = const_eval(c.get('inner', [{}])[0], vals)
            vals[c['name']] = v
    ok = (set(vals) >= {'insert', 'update', 'insert_or_update'} and None not in vals.values()
          and vals['insert'] != 0 and vals['update'] != 0 and vals['insert'] & vals['update'] == 0
          and vals['insert_or_update'] == vals['insert'] | vals['update'])
    res.ob('R-ALLOW-ENC', ok=ok)
    if not ok:
        res.violate(Violation(res.prop, 'R-ALLOW-ENC', 'allow', 'enum allow', 'allow enumerators are not disjoint bits with insert_or_update = insert|update',
                              en.get('_loc'), 'values: %r' % vals))
    want = {'insert_allowed': {'insert': True, 'update': False, 'insert_or_update': True},
            'update_allowed': {'insert': False, 'update': True, 'insert_or_update': True}}
    for fn, table in want.items():
        f = prog.funcs.get(fn)
        if f is None:
            res.incomplete.append('G-ANCHOR: function %s not found' % fn)
            continue
        body = next(c for c in f['inner'] if c.get('kind') == 'CompoundStmt')
        rets = [n for n in walk(body) if n.get('kind') == 'ReturnStmt']
        parm = next((c for c in f['inner'] if c.get('kind') == 'ParmVarDecl'), None)
        for name, expect in table.items():
            got = None
            if len(rets) == 1 and parm is not None:
                v = const_eval(rets[0]['inner'][0], vals, {parm['id']: vals.get(name)})
                got = None if v is None else bool(v)
            ok = got == expect
            res.ob('R-ALLOW-ENC', ok=ok)
            if not ok:
                res.violate(Violation(res.prop, 'R-ALLOW-ENC', 'allow', fn, '%s(allow::%s) must be %s' % (fn, name, expect),
                                      f.get('_loc'), '%s(allow::%s) evaluates to %s by AST constant evaluation' % (fn, name, got)))


def walk(n):
    yield n
    for c in n.get('inner', []) or []:
        if isinstance(c, dict):
            yield from walk(c)


def const_eval(n, enums, params=None):
    if not isinstance(n, dict):
        return None
    k = n.get('kind')
    inner = [c for c in n.get('inner', []) if isinstance(c, dict) and c.get('kind')]
    if k == 'ConstantExpr':
        if 'value' in n:
            try:
                return int(n['value'])
            except ValueError:
                pass
        return const_eval(inner[0], enums, params) if inner else None
    if k in ('ImplicitCastExpr', 'ParenExpr', 'CStyleCastExpr', 'CXXStaticCastExpr', 'CXXFunctionalCastExpr', 'ExprWithCleanups'):
        v = const_eval(inner[0], enums, params) if inner else None
        if k == 'ImplicitCastExpr' and n.get('castKind') == 'IntegralToBoolean' and v is not None:
            return 1 if v else 0
        return v
    if k == 'IntegerLiteral':
        return int(n['value'])
    if k == 'CXXBoolLiteralExpr':
        return 1 if n['value'] else 0
    if k == 'DeclRefExpr':
        r = n['referencedDecl']
        if r.get('kind') == 'EnumConstantDecl':
            return enums.get(r.get('name'))
        if params and r.get('id') in params:
            return params[r['id']]
        return None
    if k == 'BinaryOperator':
        a, b = const_eval(inner[0], enums, params), const_eval(inner[1], enums, params)
        if a is None or b is None:
            return None
        op = n['opcode']
        try:
            return {'&': a & b, '|': a | b, '^': a ^ b, '+': a + b, '-': a - b, '==': int(a == b), '!=': int(a != b),
                    '&&': int(bool(a) and bool(b)), '||': int(bool(a) or bool(b)), '<<': a << b, '>>': a >> b,
                    '<': int(a < b), '>': int(a > b), '<=': int(a <= b), '>=': int(a >= b)}[op]
        except KeyError:
            return None
    if k == 'UnaryOperator':
        a = const_eval(inner[0], enums, params)
        if a is None:
            return None
        return {'!': int(not a), '~': ~a, '-': -a, '+': a}.get(n['opcode'])
    return None


def insert_bodies(an, cm, roles, res):
    for m in an.entry_points(cm):
        if ops.kind_of(m) != 'INSERT':
            continue
        for top in method_segments(an, cm, roles, m, res):
            bodies = ops.find_bodies(top, m)
            yield m, top, bodies


TTL_CONTAINERS_ALL = ('tlru_cache', 'utlru_cache', 'ut_map', 'ut_set')


def rule_insert_table(an, res, prop):
    """R-INSERT-TABLE / R-REJECT-PURE / R-TALLY (C09); the same walk feeds C19's rejected-insert clause"""
    for cm, roles in an.classes():
        for m, top, bodies in insert_bodies(an, cm, roles, res):
            if not bodies and not top.loops and not ops.empty_range_exit(top, m):
                # an insert path that never consults the index
                res.ob('R-INSERT-TABLE', ok=False)
                V(res, prop, 'R-INSERT-TABLE', cm, m.key(), 'insert path does not consult the index', site_of_seg(top, m),
                  'no presence test on this path of %s' % m.key())
            for b in bodies:
                seg = b.seg
                present = seg.cond('PRESENT')
                upd, ins = seg.cond('UPD_OK'), seg.cond('INS_OK')
                exp = found_expired(seg) if cm.name in TTL_CACHES else None
                effs = ops.body_effects(b, roles)
                cls = actual_class(effs)
                want = expected_insert_classes(cm, present, upd, ins, exp)
                val = ' '.join(seg.valuation())
                if prop == 'C09' and cm.name in TTL_CACHES:
                    strict = [c for c in seg.conds if c[0] == 'EXPIRED_STRICT' and isinstance(c[1][0], Ent) and c[1][0].kind == 'FOUND']
                    res.ob('R-EXPIRED-INCLUSIVE', ok=not strict)
                    if strict:
                        V(res, prop, 'R-EXPIRED-INCLUSIVE', cm, b.where, 'entry at its exact expiry instant is treated as live by insert', strict[0][3],
                          'insert decides on `%s`; an entry is live only while now < expire_time, so at now == expire_time allow::insert must '
                          'succeed (the lookup side already reports the key absent)' % show(strict[0][4]))
                if not want:
                    res.count('paths_pruned_infeasible')      # allow always has at least one bit set
                    continue
                ok = (len(want) == 1 and cls in want)
                if not ops.named(m) and upd is None and ins is None:
                    # a convenience wrapper that takes no allow argument fixes its own mode: any row of the table for this presence
                    ok = cls in want
                if prop == 'C09':
                    res.ob('R-INSERT-TABLE', ok=ok)
                    res.sample(dict(container=cm.name, method=b.where, valuation=val, outcome=cls, expected=sorted(want)), cap=10)
                    if not ok:
                        d = 'presence=%s update_allowed=%s insert_allowed=%s%s -> %s, table demands %s' % (
                            present, upd, ins, '' if exp is None else ' expired=%s' % exp, cls, '/'.join(sorted(want)))
                        V(res, prop, 'R-INSERT-TABLE', cm, b.where, d, first_site(effs, seg, m),
                          'insert path [%s] has outcome %s but the allow table demands %s' % (val, cls, sorted(want)),
                          effects=[repr(e) for e in effs][:8])
                    # returned bool / tally
                    success = cls in ('BIND', 'UPDATE')
                    if b.in_loop is None:
                        rt = ret_truth(seg)
                        okr = (rt == success) if cls != 'OTHER' else True
                        if rt is None and not ops.named(m):
                            okr = True          # a new operation may report through something else than the bool of insert()
                        res.ob('R-RETURN-TRUTH', ok=okr)
                        if not okr:
                            V(res, prop, 'R-RETURN-TRUTH', cm, b.where, 'returns %s on a path whose outcome is %s' % (rt, cls),
                              site_of_seg(seg, m), 'insert reports %s but the write %s take effect [%s]' % (rt, 'did' if success else 'did not', val))
                    else:
                        name, incs = tally_info(b.top, b)
                        n_inc = 0
                        good = name is not None
                        for e in incs:
                            if e.how == 'decl':
                                continue
                            if ops.is_increment(e, name):
                                n_inc += 1
                            else:
                                good = False
                        okr = good and (n_inc == (1 if success else 0) or cls == 'OTHER')
                        res.ob('R-TALLY', ok=okr)
                        if not okr:
                            V(res, prop, 'R-TALLY', cm, b.where, 'tally changes by %s on a path whose outcome is %s' % (n_inc if good else '?', cls),
                              site_of_seg(seg, m), 'insert_range count is not the number of writes that took effect [%s]' % val)
                if 'REJECT' in want and len(want) == 1:
                    okp = not effs and not ops.nonpurge_loop_effects(b, roles)
                    res.ob('R-REJECT-PURE', ok=okp)
                    if not okp:
                        V(res, prop, 'R-REJECT-PURE', cm, b.where, 'rejected insert changes state: ' + ','.join(sorted(set(e.kind for e in effs))),
                          first_site(effs, seg, m), 'rejected insert [%s] has effects %s' % (val, [repr(e) for e in effs][:4]))
            if prop == 'C09':
                # every range element goes through the presence test the allow modes are defined over
                for lp, s2 in ops.bodiless_iterations(top):
                    res.ob('R-INSERT-TABLE', ok=False)
                    V(res, prop, 'R-INSERT-TABLE', cm, m.key(), 'a range element is written without the presence test the allow mode is defined over',
                      site_of_seg(s2, m), 'iteration path [%s] has effects %s' % (' '.join(s2.valuation()), sorted(set(e.kind for e in s2.state_effects()))))
                # ... and no entry is created except on the row of the table that says so (key established absent)
                for seg in top.all_segments():
                    if lift.feasible(seg)[0]:
                        check_bind_dominated(res, prop, cm, roles, m, seg)
                if cm.name in TTL_CONTAINERS_ALL:
                    # "replaces the value (restarting any TTL)"
                    from rules_ttl import check_write_restarts
                    for b in bodies:
                        check_write_restarts(res, prop, cm, roles, m, b)
            # tally plumbing of the range method itself
            if prop == 'C09' and any(b.in_loop is not None for b in bodies):
                name = ops.tally_var(top.ret)
                init = ops.local_writes(top, name, decl=True)
                ok = name is not None and len(init) == 1 and init[0].val == ('int', 0)
                post = ops.local_writes(top, name, decl=False)
                ok = ok and not post
                res.ob('R-TALLY', ok=ok)
                if not ok:
                    V(res, prop, 'R-TALLY', cm, m.key(), 'range insert does not return a tally that starts at 0', site_of_seg(top, m),
                      'returned %s; initialisations %s; adjustments outside the loop %s' % (show(top.ret) if top.ret is not None else None,
                                                                                        [repr(e) for e in init], [repr(e) for e in post]))


def own_position(e, ent, L):
    """is the value of this partition store the stored list position of entity `ent` (ld of the back pointer of ent's own slot)?"""
    v = getattr(e, 'val', None)
    try:
        if is_ld(v) and v[2][0] == 'fld' and isinstance(v[2][1], tuple) and v[2][1][0] == 'idx':
            return same_ent(L.sid_entity(v[2][1][2]), ent)
    except Exception:
        return False
    return False


def remove_group_ok(effs, ent, L=None):
    """effects consist solely of the REMOVE of entity `ent`"""
    for e in effs:
        if e.kind == 'PART' and e.delta is None and L is not None and own_position(e, ent, L):
            continue      # `m_lru_end = e.m_lru_position`: the partition moved onto the removed entry's own node (its place: C03 / C10)
        if e.kind in ('CNT', 'PART'):
            if e.delta not in (-1, 0):
                return False
        elif e.kind in ('UNBIND', 'AUX_DEL', 'MOVE', 'BACKPTR'):
            if not same_ent(e.ent, ent):
                return False
        elif e.kind in ('SWAP', 'PERM_WR'):
            continue
        else:
            return False
    return any(e.kind == 'UNBIND' for e in effs)


def same_ent(a, b):
    if a is None or b is None:
        return False
    if a.key() == b.key():
        return True
    # rr: the slot stored at the position of E is E (RI), ATPART(-1) after swap is handled by POS rules
    if a.kind == 'POSOF' and a.arg == b.key() or b.kind == 'POSOF' and b.arg == a.key():
        return True
    if a.kind == 'SELF' and a.arg[0] == b.key() or b.kind == 'SELF' and b.arg[0] == a.key():
        return True
    return False


def rule_noninterference(an, res):
    """C19: peek hits, misses, rejected inserts, absent-key erases have no effect on container state"""
    prop = 'C19'
    rule_insert_table(an, res, prop)
    # range forms: whatever happens outside the per-element bodies happens also when every element is a no-effect case
    for cm, roles in an.classes():
        for m in an.entry_points(cm):
            if ops.kind_of(m) not in ('INSERT', 'FIND', 'ERASE'):
                continue
            for top in method_segments(an, cm, roles, m):
                if not top.loops or not ops.find_bodies(top, m) or top.conds_of('PRESENT'):
                    continue
                pl = set(ops.purge_loops(top)) if roles.kind == 'maplist' else set()
                extra = [e for e in top.state_effects() if not (roles.kind == 'maplist' and e.kind == 'AUX_ERASE_RANGE')]
                for i, (lp, segs) in enumerate(top.loops):
                    if i in pl or any(ops.find_bodies(s2, m) for s2 in segs):
                        continue
                    extra += [e for s2 in segs for e in s2.state_effects()]
                res.ob('R-PURE-NOOP', ok=not extra)
                if extra:
                    V(res, prop, 'R-PURE-NOOP', cm, m.key(), 'range call changes state outside its per-element operations: %s' % ','.join(sorted(set(e.kind for e in extra)))[:80],
                      extra[0].site, 'even a range whose elements are all rejected / missing / absent has these effects: %s' % [repr(e) for e in extra][:3])
    for cm, roles in an.classes():
        for m in an.entry_points(cm):
            k = ops.kind_of(m)
            if k not in ('FIND', 'ERASE'):
                continue
            for top in method_segments(an, cm, roles, m, res):
                bodies = ops.find_bodies(top, m)
                if not bodies and not top.loops and not ops.empty_range_exit(top, m) and not ops.empty_container_exit(top, m):
                    res.ob('R-PURE-NOOP', ok=False)
                    V(res, prop, 'R-PURE-NOOP', cm, m.key(), 'path does not consult the index', site_of_seg(top, m),
                      'no presence test on this path of %s' % m.key())
                for b in bodies:
                    seg = b.seg
                    present = seg.cond('PRESENT')
                    effs = ops.body_effects(b, roles)
                    extra = ops.nonpurge_loop_effects(b, roles)
                    val = ' '.join(seg.valuation())
                    case = None
                    if present is False:
                        case = 'miss' if k == 'FIND' else 'absent-erase'
                        ok = not effs and not extra
                    elif k == 'FIND':
                        exp = found_expired(seg) if cm.name in TTL_CACHES else None
                        peek = seg.cond('PEEK')
                        if exp is True:
                            case = 'expired-hit'
                            fk = next(c[1][0] for c in seg.conds if c[0] in ('EXPIRED', 'EXPIRED_STRICT') and c[1][0].kind == 'FOUND')
                            ok = (remove_group_ok(effs, fk, seg.L) or not effs) and not extra     # discarding it is allowed, not required
                        elif peek is True:
                            case = 'peek-hit'
                            ok = not effs and not extra
                        elif peek is None and present is True and exp is not True and \
                                any('peek' in (p.get('type', {}).get('qualType', '') or '') for p in m.params):
                            # the method takes a peek argument and this hit never looks at it: the path is also the peeking call's
                            case = 'peek-hit (peek argument not consulted)'
                            ok = not effs and not extra
                    if case is None:
                        continue
                    res.ob('R-PURE-NOOP', ok=ok)
                    res.sample(dict(container=cm.name, method=b.where, case=case, valuation=val, effects=[repr(e) for e in effs][:4]), cap=10)
                    if not ok:
                        kinds = ','.join(sorted(set(e.kind for e in effs) | set(e.kind for _, e in extra)))
                        V(res, prop, 'R-PURE-NOOP', cm, b.where, '%s changes state: %s' % (case, kinds), first_site(effs, seg, m),
                          '%s path [%s] must leave the container untouched%s but has effects %s'
                          % (case, val, ' (apart from removing the expired entry itself)' if case == 'expired-hit' else '',
                             [repr(e) for e in effs][:5]))


def rule_c09(an, res):
    check_allow_encoding(an, res)
    rule_insert_table(an, res, 'C09')
    # ut_map / ut_set: "has a live entry" is read off the index, which is only right after the expired prefix was purged
    for cm, roles in an.classes(['ut_map', 'ut_set']):
        for m in an.entry_points(cm):
            if ops.kind_of(m) == 'INSERT':
                for top in method_segments(an, cm, roles, m):
                    check_purge_first(res, 'C09', cm, roles, m, top)


# ---------------------------------------------------------------------------------------------- C02

def net(effs, kind):
    """net change of a cumulative effect kind (CNT / PART carry the value relative to segment entry)"""
    last = None
    for e in effs:
        if e.kind == kind or (kind == 'PART' and e.kind == 'CNT' and e.also_part):
            if e.delta is None:
                return None
            last = e.delta
    return 0 if last is None else last


def balance_of(seg, roles):
    effs = seg.effects
    out = {}
    bad = []
    if roles.counter is not None:
        out['counter'] = net(effs, 'CNT')
    out['index'] = sum(1 for e in effs if e.kind == 'BIND') - sum(1 for e in effs if e.kind == 'UNBIND')
    if roles.part is not None:
        out['partition'] = net(effs, 'PART')
        if out['partition'] is None and roles.order is not None:
            # the partition was assigned a node's position (`m_end = e.m_lru_position` after splicing e in front of the free
            # region): the list-position domain knows how many nodes it moved over
            try:
                from rules_pos import simulate
                sim = simulate(seg, roles)
                if not sim.unknown and not getattr(sim, 'infeasible', False) and sim.pnet is not None:
                    out['partition'] = sim.pnet
            except Exception:
                pass
    for a in roles.aux_kind:
        out['aux:' + a] = (sum(1 for e in effs if e.kind == 'AUX_ADD' and e.aux == a)
                           - sum(1 for e in effs if e.kind == 'AUX_DEL' and e.aux == a))
    return out


def rule_c02(an, res):
    prop = 'C02'
    for cm, roles in an.classes():
        for m in an.entry_points(cm):
            k = ops.kind_of(m)
            tops = method_segments(an, cm, roles, m, res)   # an entry point outside the table still has to keep the books balanced
            for top in tops:
                if k == 'OBS':
                    check_observer(res, prop, cm, roles, m, top)
                    continue
                if k == 'CLEAR':
                    continue   # reset-completeness is C20; clear() legitimately zeroes the counter
                for seg in top.all_segments():
                    ok_f, _ = lift.feasible(seg)
                    if not ok_f:
                        continue
                    check_balance(res, prop, cm, roles, m, seg)
                    check_bind_dominated(res, prop, cm, roles, m, seg)
                    if roles.counter is not None:
                        check_bound(res, prop, cm, roles, m, seg)
                    check_no_resize(res, prop, cm, roles, m, seg)
                if roles.kind == 'maplist' and k in ('INSERT', 'ERASE', 'FIND', 'CLEAN'):
                    check_purge_first(res, prop, cm, roles, m, top)
                    from rules_ttl import check_purge_shape
                    check_purge_shape(res, prop, cm, roles, m, top)
        if roles.kind == 'maplist':
            # size() == number of live keys right after a call needs the purge to be complete: the ttl list must be deadline-ordered
            from rules_ttl import check_ord_witness_B
            check_ord_witness_B(an, res, prop, cm, roles)
        check_ctor_capacity(an, res, prop, cm, roles)
        from rules_misc import check_ctor_shape
        check_ctor_shape(an, res, prop, cm, roles)


def where_of(m, seg):
    return '%s%s' % (m.key(), ' [loop body]' if seg.loop is not None else '')


def check_balance(res, prop, cm, roles, m, seg):
    bal = balance_of(seg, roles)
    vals = {k: v for k, v in bal.items()}
    if roles.kind == 'maplist':
        # purge iterations unbind; the matching list nodes go in one range erase after the loop (shape checked in C17)
        if ops.is_purge_iter(seg):
            res.ob('R-BALANCE', ok=True)
            return
    if not seg.state_effects():
        return
    if roles.name == 'fifo_cache':
        vals.pop('partition', None)
    if vals.get('counter', 0) is None:
        # counter := index.size() after the last change of the index (the count re-derived from the key index): by definition in
        # step with the index
        cnts = [e for e in seg.effects if e.kind == 'CNT']
        last = cnts[-1] if cnts else None
        v = getattr(last, 'val', None)
        if isinstance(v, tuple) and len(v) > 4 and v[0] == 'q' and v[1] == 'size' and v[2] == seg.L.index and \
                not [e for e in seg.effects[seg.effects.index(last) + 1:] if e.kind in ('BIND', 'UNBIND', 'INDEX_OP')]:
            vals['counter'] = vals.get('index', 0)
    distinct = set(vals.values())
    ok = None not in distinct and len(distinct) == 1
    res.ob('R-BALANCE', ok=ok)
    if len(res.samples) < 6 and seg.effs('BIND', 'UNBIND'):
        res.sample(dict(container=cm.name, method=where_of(m, seg), valuation=' '.join(seg.valuation()), balance=vals))
    if not ok:
        d = 'counter/index/partition/aux out of step: ' + ', '.join('%s%s' % (k, '=?' if v is None else '%+d' % v) for k, v in sorted(vals.items()))
        V(res, prop, 'R-BALANCE', cm, where_of(m, seg), d, first_site(seg.state_effects(), seg, m),
          'on path [%s] the element counter, the index, the free/used partition and the auxiliary structures do not change by the same amount: %s'
          % (' '.join(seg.valuation()), vals))


def check_bound(res, prop, cm, roles, m, seg):
    """0 <= used <= capacity at every point of the path, from RI (0 <= used0 <= cap, cap >= 1) and the path's tests"""
    x_min, x_max = None, 0        # x = used0 - cap
    lo = 0                        # used0 >= lo
    cnt0 = True
    for k, i in seg.order:
        if k == 'cond':
            kind, args, truth, site, raw, rawtruth = seg.conds[i]
            if not cnt0:
                continue          # tests after the counter changed speak about a different value
            if kind == 'FULL':
                if truth:
                    x_min = 0
                    lo = max(lo, 1)
                else:
                    x_max = min(x_max, -1)
            elif kind == 'OVERFULL':
                if not truth:
                    x_max = min(x_max, 0)
                else:
                    x_min = 1
            elif kind == 'ATCAP':
                if truth:
                    x_min = 0
                    lo = max(lo, 1)
            elif kind == 'CAPCMP':
                c, nop, sign = args
                # sign=+1:  (cap - used + c) nop 0  i.e. -x + c nop 0 ; sign=-1: x + c nop 0
                if nop in ('<', '<='):
                    strict = 1 if nop == '<' else 0
                    if truth:
                        if sign == 1:      # -x + c (<|<=) 0  ->  x >= c + strict
                            x_min = max(x_min if x_min is not None else -10 ** 9, c + strict)
                        else:              # x + c (<|<=) 0   ->  x <= -c - strict
                            x_max = min(x_max, -c - strict)
                    else:
                        if sign == 1:      # not(-x + c < 0) -> x <= c ; not(<=) -> x <= c - 1
                            x_max = min(x_max, c - (0 if strict else 1))
                        else:              # not(x + c < 0) -> x >= -c ; not(<=) -> x >= -c + 1
                            x_min = max(x_min if x_min is not None else -10 ** 9, -c + (0 if strict else 1))
            elif kind == 'NONEMPTY' and truth:
                lo = max(lo, 1)
            elif kind == 'PRESENT' and truth and args[1] == 0:
                lo = max(lo, 1)
            elif kind == 'HASKEY' and truth:
                lo = max(lo, 1)
            elif kind == 'HASKEY' and not truth and roles.name == 'fifo_cache' and args[0].kind in ('FRONT', 'FROMEND'):
                # fifo RI: unbound nodes form a prefix, so an unbound head node means a free node exists (size < capacity)
                x_max = min(x_max, -1)
        elif k == 'eff':
            e = seg.effects[i]
            if e.kind != 'CNT':
                continue
            cnt0 = False
            if e.delta is None and isinstance(e.val, tuple) and len(e.val) > 4 and e.val[0] == 'q' and e.val[1] == 'size' and e.val[2] == seg.L.index:
                # counter := index.size(): the count re-derived from the key index, whose own growth the BIND rules bound
                res.ob('R-BOUND', ok=True)
                return
            if e.delta is None:
                res.ob('R-BOUND', ok=False)
                V(res, prop, 'R-BOUND', cm, where_of(m, seg), 'counter assigned a value that is not its old value +/- a constant',
                  e.site, 'counter := %s' % show(e.val))
                continue
            hi_ok = x_max + e.delta <= 0
            lo_ok = lo + e.delta >= 0
            res.ob('R-BOUND', ok=hi_ok and lo_ok)
            if not hi_ok:
                V(res, prop, 'R-BOUND', cm, where_of(m, seg), 'counter may exceed capacity (increment not dominated by a not-full test or a removal)',
                  e.site, 'on path [%s] size - capacity can reach %+d' % (' '.join(seg.valuation()), x_max + e.delta))
            if not lo_ok:
                V(res, prop, 'R-BOUND', cm, where_of(m, seg), 'counter may drop below zero (decrement not dominated by a non-empty / present test)',
                  e.site, 'on path [%s] size can reach %+d' % (' '.join(seg.valuation()), lo + e.delta))


def check_bind_dominated(res, prop, cm, roles, m, seg):
    """R-BIND-DOMINATED: an index insertion only inserts when the key is absent; it must be dominated by a failed presence test for the
    very key it binds (emplace on a present key does nothing, but the counter / partition / aux structures would still move)"""
    for b in seg.effs('BIND'):
        s2 = seg
        ok = False
        while s2 is not None and not ok:
            for c in s2.conds_of('PRESENT'):
                if c[2] is False and c[1][0] == b.key:
                    ok = True
            s2 = s2.parent if s2.loop is None else None     # a test outside the loop says nothing about this iteration's key
        res.ob('R-BIND-DOMINATED', ok=ok)
        if not ok:
            V(res, prop, 'R-BIND-DOMINATED', cm, where_of(m, seg), 'index insertion not dominated by a failed lookup of the same key', b.site,
              'path [%s] binds %s without having established that it is absent: for a present key (e.g. a duplicate in a range) emplace '
              'inserts nothing while the counter and slot bookkeeping still advance' % (' '.join(seg.valuation()), show(b.key)))


def check_no_resize(res, prop, cm, roles, m, seg):
    for e in seg.effects:
        if e.kind in ('STORAGE_OP', 'ORDER_OP'):
            res.ob('R-CAPACITY-FIXED', ok=False)
            V(res, prop, 'R-CAPACITY-FIXED', cm, where_of(m, seg), 'structure that defines capacity() is resized: %s' % e.name, e.site,
              'capacity() must always equal the constructor argument; %s changes the slot storage / node list' % e.name)


def check_observer(res, prop, cm, roles, m, top):
    L = top.L
    r = top.ret
    ok = False
    want = ''
    if m.name == 'size':
        want = 'the element counter' if roles.counter else 'the index size'
        ok = isinstance(r, tuple) and r[0] == 'q' and r[1] == 'size' and r[2] == L.index and (r[4] or 0) == 0
        if roles.counter is not None:
            ok = ok or r == ld0(THIS(roles.counter))     # |index| == counter is part of RI (R-BALANCE): either is truthful
    elif m.name == 'empty' and isinstance(r, tuple) and r[0] == 'bool' and top.conds and all(lift.emptiness(c) is not None for c in top.conds):
        # decided by tests that each say whether anything is stored (counter, index / auxiliary size, partition at the head: one fact, RI)
        want = 'counter == 0'
        vals = set(lift.emptiness(c) for c in top.conds)
        ok = len(vals) == 1 and r[1] == (not next(iter(vals)))
    elif m.name == 'empty':
        want = 'counter == 0'
        cnt = ld0(THIS(roles.counter)) if roles.counter else None
        if isinstance(r, tuple) and r[0] == 'cmp':
            nc = lift.norm_cmp(r)
            atoms, c, nop = nc
            keys = list(atoms)
            if len(keys) == 1 and c == 0 and nop == '==':
                a = keys[0]
                ok = (a == cnt) or (isinstance(a, tuple) and a[0] == 'q' and a[1] == 'size' and a[2] == L.index)
            elif len(keys) == 1 and nop == '<=' and c == 0 and atoms[keys[0]] == 1:
                a = keys[0]
                ok = (a == cnt)      # used <= 0  <=> used == 0 for unsigned
        elif isinstance(r, tuple) and r[0] == 'q' and r[1] == 'empty' and r[2] == L.index:
            ok = True
        if not ok and isinstance(r, tuple) and r and r[0] in ('cmp', 'not'):
            kind, args, pol = L.classify(r[1] if r[0] == 'not' else r)
            if r[0] == 'not':
                pol = not pol
            ok = lift.emptiness((kind, args, pol)) is False      # returns true exactly when the tested fact says "nothing stored"
    elif m.name == 'capacity':
        want = 'size of the fixed slot storage'
        caps = [x for x in (L.slots, L.order, L.perm) if x is not None]
        ok = isinstance(r, tuple) and r[0] == 'q' and r[1] == 'size' and r[2] in caps and (r[4] or 0) == 0
        ok = ok or (is_ld(r) and L.is_capacity(r))       # a const copy of the constructor argument
    ok = ok and not top.state_effects()
    if not ok and m.name in ('size', 'empty'):
        # an observer answered from an atomic mirror of the counter (or decided by one): whether the mirror is published at the
        # right moments (once per operation, under the lock, after the last change) is a discipline across all mutators
        def mentions_atomic(t, d=0):
            if not isinstance(t, tuple) or d > 12:
                return False
            if t[:1] == ('atomicval',):
                return True
            return any(mentions_atomic(x, d + 1) for x in t)
        if mentions_atomic(r) or any(mentions_atomic(c[4]) for c in top.conds):
            msg = ('G-UNKNOWN %s() is answered from an atomic member (a lock-free mirror of the element counter): its publication '
                   'discipline is not modelled in %s reached from %s::%s' % (m.name, show_site(site_of_seg(top, m)), cm.name, m.key()))
            if msg not in res.incomplete:
                res.incomplete.append(msg)
            return
    res.ob('R-OBSERVERS', ok=ok)
    res.sample(dict(container=cm.name, method=m.key(), returns=show(r) if r is not None else None), cap=9)
    if not ok:
        V(res, prop, 'R-OBSERVERS', cm, m.key(), '%s() does not return %s' % (m.name, want), site_of_seg(top, m),
          '%s() returns %s with effects %s' % (m.name, show(r) if r is not None else None, [repr(e) for e in top.state_effects()][:3]))


def check_ctor_capacity(an, res, prop, cm, roles):
    if roles.name not in CACHES:
        return
    ctor = cm.ctor()
    paths = an.paths(cm, ctor)
    L = lift.Lifter(roles)
    capf = roles.slots or roles.order
    ok = False
    site = None
    for p in paths:
        for e in p.trace:
            if e[0] == 'init' and e[1] == THIS(capf):
                site = e[3]
    ok = ops.ctor_sizes_field(paths, THIS(capf))
    res.ob('R-CAPACITY-CTOR', ok=ok)
    if not ok:
        V(res, prop, 'R-CAPACITY-CTOR', cm, ctor.key(), 'constructor does not size %s with the capacity argument' % capf,
          site or (ctor.loc and (ctor.loc[0], ctor.loc[1], ctor.key())), 'capacity() would not equal the constructor argument')


def check_purge_first(res, prop, cm, roles, m, top):
    """ut_map / ut_set: the expired-prefix purge runs before the operation consults or changes the index"""
    pl = ops.purge_loops(top)
    first_purge = None
    first_touch = None
    for pos, (k, i) in enumerate(top.order):
        if k == 'loop' and i in pl and first_purge is None:
            first_purge = pos
        elif k == 'loop' and i not in pl and first_touch is None:
            lp, segs = top.loops[i]
            if any(s.conds_of('PRESENT') or s.effs('BIND', 'UNBIND') for s in segs):
                first_touch = pos
        elif k == 'cond' and top.conds[i][0] == 'PRESENT' and first_touch is None:
            first_touch = pos
        elif k == 'eff' and top.effects[i].kind in ('BIND', 'UNBIND', 'INDEX_OP') and first_touch is None:
            first_touch = pos
    # any index query (find) before the purge also counts: look at raw query events
    q_before = None
    seen_loop = False
    for e in top.events:
        if e[0] == 'loop':
            seen_loop = True
        if e[0] == 'q' and e[1][1] in ('find', 'count', 'contains', 'at') and e[1][2] == top.L.index and not seen_loop:
            q_before = e
            break
    ok = first_purge is not None and (first_touch is None or first_purge < first_touch) and q_before is None
    if not ok and first_purge is None:
        # nothing to purge: the path established that the container (ttl list / key map) is empty before it touched the index
        for pos, (k, i) in enumerate(top.order):
            if first_touch is not None and pos >= first_touch:
                break
            if k == 'cond' and top.conds[i][0] in ('AUX_NONEMPTY', 'NONEMPTY') and top.conds[i][2] is False:
                seen_q = q_before is not None and top.events.index(q_before) < next((j for j, e in enumerate(top.events)
                                                                                      if e[0] == 'cond' and e[1] == top.conds[i][4]), 10 ** 9)
                if not seen_q:
                    ok = True
                break
    if not ok and first_purge is None:
        # nothing to purge: before it touched the index the path established that the head of the (deadline-ordered) ttl list is
        # still alive - `if (m_ttl_list.empty() || now < m_ttl_list.front().m_expire_time) return 0;` at the top of the purge
        for pos, (k, i) in enumerate(top.order):
            if first_touch is not None and pos >= first_touch:
                break
            if k == 'cond' and top.conds[i][0] == 'EXPIRED' and top.conds[i][2] is False and isinstance(top.conds[i][1][0], Ent) \
                    and top.conds[i][1][0].kind in ('AUXHEAD', 'AUXHEADNODE', 'FRONT') and (top.conds[i][1][0].epoch or 0) == 0:
                seen_q = q_before is not None and top.events.index(q_before) < next((j for j, e in enumerate(top.events)
                                                                                      if e[0] == 'cond' and e[1] == top.conds[i][4]), 10 ** 9)
                if not seen_q:
                    ok = True
                break
    if not ok and first_purge is None and q_before is None:
        # two-pass purge, first pass found nothing: a scan loop walked the expired prefix and the path established that its
        # boundary is still the head of the ttl list (no expired node), before the index was touched
        bounds = ops.scan_boundaries(top)
        scan_pos = {lp.id: pos for pos, (k, i) in enumerate(top.order) if k == 'loop' for lp in [top.loops[i][0]]}
        for pos, (k, i) in enumerate(top.order):
            if first_touch is not None and pos >= first_touch:
                break
            if k == 'cond' and top.conds[i][0] == 'IT_AT_BEGIN' and top.conds[i][2] is True:
                a0 = top.conds[i][1][0]
                if isinstance(a0, tuple) and len(a0) > 2 and a0[0] == 'lv' and (a0[1], a0[2]) in bounds and scan_pos.get(a0[2], 10 ** 9) < pos:
                    ok = True
                    break
    if not ok and first_purge is not None and first_touch is not None and first_purge > first_touch and q_before is None or \
            (not ok and first_purge is not None and q_before is not None):
        # purge LAST: the operation works on the unpurged map, treating every key it finds as absent unless the key's own deadline is
        # still ahead of the call's clock sample, and purges before it returns.  Observably that is the purge-first behaviour, but
        # the rules of C02 / C04 / C17 / C18 are written for purge-first: not judged (exit 2), not reported.
        guarded = True
        bodies = ops.find_bodies(top, m)
        hits = 0
        for b in bodies:
            sg = b.seg
            if sg.cond('PRESENT') is True:
                hits += 1
                own = [c for c in sg.conds if c[0] in ('EXPIRED',) and isinstance(c[1][0], Ent) and c[1][0].kind in ('TTLOF', 'VIA', 'FOUND')]
                if not own:
                    guarded = False      # a hit that is not tested against its own deadline: plain "index used before the purge"
        later_purge = first_purge is not None
        if bodies and hits and guarded and later_purge:
            msg = ('G-UNKNOWN purge-last with per-key liveness tests (the expired prefix is purged after the index was used) is not modelled '
                   'in %s reached from %s::%s' % (show_site(site_of_seg(top, m)), cm.name, m.key()))
            if msg not in res.incomplete:
                res.incomplete.append(msg)
            return
    if not ok and first_purge is None and not ops.named(m) and ops.kind_of(m) == 'FIND' and not top.state_effects() \
            and not any(s2.state_effects() for s2 in top.all_segments()):
        # a pure observer added later (`contains() const`): it cannot purge; it is right if every hit is tested against the entry's
        # own deadline with the call's clock sample before it is reported
        bodies = ops.find_bodies(top, m)
        hits = [b for b in bodies if b.seg.cond('PRESENT') is True]
        if bodies and all(any(c[0] in ('EXPIRED', 'EXPIRED_STRICT') and isinstance(c[1][0], Ent) and c[1][0].kind in ('TTLOF', 'VIA', 'FOUND')
                              for c in b.seg.conds) for b in hits):
            ok = True
    # the purge (and every deadline written) uses a clock sample of the atomic step itself: in ut_map/ut_set the ttl list is
    # appended in lock order, so it is deadline-sorted only if clock samples are taken in lock order too, and "size() ==
    # live keys immediately after the call" needs the purge time to be inside the step, not before a wait for the mutex
    held = 0
    early = None
    for e in top.path.trace:
        if e[0] == 'lock' and e[1] == roles.lock and e[3] != 'temporary':
            held += 1
        elif e[0] == 'unlock' and e[1] == roles.lock and not (len(e) > 3 and e[3] == 'temporary'):
            held = max(0, held - 1)
        elif e[0] == 'now' and held == 0 and early is None:
            early = e
    if prop != 'C02' and ops.kind_of(m) != 'INSERT':
        early = None         # a lookup's stale purge time only matters to the size()-right-after-the-call clause (C02)
    else:
        res.ob('R-CLOCK-IN-REGION', ok=early is None)
    if early is not None:
        V(res, prop, 'R-CLOCK-IN-REGION', cm, m.key(), 'clock sampled outside the critical section', early[2],
          '%s reads steady_clock before taking m_lock: a thread that waits for the mutex purges (and stamps deadlines) with a '
          'sample older than entries other threads appended meanwhile' % m.key())
    res.ob('R-PURGE-FIRST', ok=ok)
    if not ok:
        site = q_before[2] if q_before else site_of_seg(top, m)
        V(res, prop, 'R-PURGE-FIRST', cm, m.key(), 'index consulted or changed before (or without) purging expired entries', site,
          '%s must purge the expired prefix with its own clock sample before anything else; purge %s'
          % (m.key(), 'missing on this path' if first_purge is None else 'runs after the index is used'))


# ---------------------------------------------------------------------------------------------- C03

POLICY_VICTIMS = {
    'lru_cache': ('BACK',), 'mru_cache': ('BACK',), 'tlru_cache': ('BACK', 'AUXHEAD'), 'utlru_cache': ('BACK', 'AUXHEAD'),
    'lfu_cache': ('AUXHEAD',), 'lfuda_cache': ('AUXHEAD',), 'rr_cache': ('RANDPOS',), 'fifo_cache': ('FROMEND', 'FRONT'),
}


def rule_c03(an, res):
    prop = 'C03'
    for cm, roles in an.classes():
        for m in an.entry_points(cm):
            k = ops.kind_of(m)
            if k in ('OBS', 'CLEAR'):
                continue
            for top in method_segments(an, cm, roles, m, res):
                from rules_misc import check_splice_dest
                check_splice_dest(res, prop, cm, roles, m, top)
                for seg in top.all_segments():
                    ok_f, _ = lift.feasible(seg)
                    if not ok_f:
                        continue
                    check_removals(res, prop, cm, roles, m, k, seg)
                    if roles.name == 'rr_cache' and seg.effs('UNBIND'):
                        from rules_policy import check_rr_remove
                        check_rr_remove(res, prop, cm, roles, m, seg)
                    if roles.name == 'rr_cache' and seg.effs('PERM_WR'):
                        # a moved open-list entry whose element keeps a stale position: a later removal frees a live entry's slot
                        from rules_policy import check_perm_backptr
                        check_perm_backptr(res, prop, cm, roles, m, seg)
                    # erased slots return to the free side so that the next insert re-uses them instead of evicting
                    if roles.order is not None and seg.effs('UNBIND') and not any(s2.effs('PART', 'BIND', 'UNBIND', 'CNT') for lp, ss in seg.loops for s2 in ss):
                        from rules_pos import simulate
                        sim = simulate(seg, roles)
                        bad = sim.integrity() if not sim.unknown else ['position of the freed slot not established: ' + '; '.join(sim.unknown[:2])]
                        res.ob('R-FREED-SLOT-REUSABLE', ok=not bad)
                        if bad:
                            V(res, prop, 'R-FREED-SLOT-REUSABLE', cm, where_of(m, seg), 'freed slot is not returned to the free side of the slot list',
                              first_site(seg.effs('MOVE', 'UNBIND'), seg, m), 'after path [%s] the slot list is %s: %s (the next insert would evict a live '
                              'entry although a free slot exists, or hand out a live slot)' % (' '.join(seg.valuation()), sim.show(), '; '.join(bad)))
                if k == 'ERASE':
                    for b in ops.find_bodies(top, m):
                        check_erase_truth(res, prop, cm, roles, m, b)
                if roles.name == 'fifo_cache' and k in ('ERASE', 'INSERT'):
                    # fifo recycles the head node: a freed node anywhere else makes the next insert into a non-full cache evict a live entry
                    from rules_pos import check_body
                    for b in ops.find_bodies(top, m):
                        check_body(res, prop, cm, roles, m, k, b)
                if k == 'INSERT' and cm.name in TTL_CACHES:
                    # removals guarded by "the ttl head is expired" read the ttl structure's key: it has to be the entry's deadline
                    from rules_ttl import check_refile
                    for b in ops.find_bodies(top, m):
                        check_refile(res, prop, cm, roles, m, b)


def check_erase_truth(res, prop, cm, roles, m, b):
    """erase reports true exactly when it removed the entry (range form: the count steps exactly then)"""
    seg = b.seg
    removed = bool(seg.effs('UNBIND')) and seg.cond('PRESENT') is True
    val = ' '.join(seg.valuation())
    if b.in_loop is None:
        rt = ret_truth(seg)
        ok = rt == removed
        if rt is None and not ops.named(m):
            ok = True           # an erase-like operation added later may report through something else than erase()'s bool
        res.ob('R-ERASE-TRUTH', ok=ok)
        if not ok:
            V(res, prop, 'R-ERASE-TRUTH', cm, b.where, 'erase returns %s on a path that %s the entry' % (rt, 'removes' if removed else 'does not remove'),
              site_of_seg(seg, m), 'path [%s]' % val)
    else:
        var, incs = tally_info(b.top, b)
        if var is None and isinstance(b.top.ret, tuple) and any(isinstance(t, tuple) and len(t) > 2 and t[0] == 'q' and t[1] == 'size'
                                                                 for t in lift.subterms(b.top.ret)) \
                and any(e[0] == 'enter' and '::~' in str(e[1]) for e in b.top.events):
            # (only when a helper object's destructor took part: a plain `before - size()` is judged by the size-difference pass)
            # the count is computed from container sizes (before / after), not tallied per element: not compared element by element
            msg = ('G-UNKNOWN %s returns a count computed from container sizes (%s), not a per-element tally in %s reached from %s::%s'
                   % (m.name, show(b.top.ret)[:80], show_site(site_of_seg(b.top, m)), cm.name, m.key()))
            if msg not in res.incomplete:
                res.incomplete.append(msg)
            return
        n = len([e for e in incs if e.how != 'decl' and ops.is_increment(e, var)]) if var else None
        bad = len([e for e in incs if e.how != 'decl']) - (n or 0) if var else 1
        ok = var is not None and bad == 0 and n == (1 if removed else 0)
        res.ob('R-ERASE-TRUTH', ok=ok)
        if not ok:
            V(res, prop, 'R-ERASE-TRUTH', cm, b.where, 'erase_range count steps by %s on a path that %s an entry' % (n, 'removes' if removed else 'does not remove'),
              site_of_seg(seg, m), 'path [%s]' % val)


def check_removals(res, prop, cm, roles, m, k, seg):
    effs = seg.effects
    unb = [e for e in effs if e.kind == 'UNBIND']
    binds = [e for e in effs if e.kind == 'BIND']
    val = ' '.join(seg.valuation())
    idxops = [e for e in effs if e.kind == 'INDEX_OP' and e.name in ('clear', 'swap', 'extract', 'merge')]
    for e in idxops:
        res.ob('R-REMOVE-LICENSE', ok=False)
        V(res, prop, 'R-REMOVE-LICENSE', cm, where_of(m, seg), 'index %s() outside clear()' % e.name, e.site,
          '%s drops entries wholesale in %s' % (e.name, m.key()))
    present = seg.cond('PRESENT')
    if not unb:
        if seg.state_effects():
            res.ob('R-NO-COLLATERAL', ok=True)
        return
    where = where_of(m, seg)
    for e in unb:
        lic = None
        ent = e.ent
        if k == 'ERASE':
            if present is True and ent.kind == 'FOUND' and same_key(ent, seg):
                lic = 'erase(k) of the found entry'
        elif k == 'FIND':
            exp = found_expired(seg)
            if cm.name in TTL_CACHES and present is True and exp is True and ent.kind == 'FOUND':
                lic = 'lookup of an expired entry removes that entry'
        elif k == 'INSERT':
            ins = seg.cond('INS_OK')
            if present is False and ins is not False and roles.name in POLICY_VICTIMS:
                full = seg.cond('FULL')
                if roles.name == 'fifo_cache':
                    hk = [c for c in seg.conds if c[0] == 'HASKEY' and c[2]]
                    if hk and same_ent(hk[0][1][0], ent) and ent.kind in POLICY_VICTIMS['fifo_cache']:
                        lic = 'fifo recycles the head node which holds a key'
                    elif full is True and ent.kind == 'FRONT':
                        # as many keys as nodes (R-BALANCE keeps the counter equal to the number of keyed nodes): every node holds a key
                        lic = 'fifo recycles the head node of a full list'
                elif full is True and roles.name == 'rr_cache' and ent.kind == 'RAWRNG':
                    from rules_misc import raw_draw_is_bound_slot
                    if raw_draw_is_bound_slot(seg, ent):
                        lic = 'full insert evicts a uniformly drawn slot (all slots are bound when full)'
                elif full is True and (ent.kind in POLICY_VICTIMS[roles.name] or ('BACK' in POLICY_VICTIMS[roles.name] and seg.names_back(ent))):
                    if ent.kind == 'AUXHEAD' and roles.aux_kind.get(ent.arg) == 'ttl':
                        # expired-first: only when the head is expired
                        ex = [c for c in seg.conds if c[0] in ('EXPIRED', 'EXPIRED_STRICT') and c[2] and c[1][0].kind in ('AUXHEAD',)]
                        if ex:
                            lic = 'full insert evicts the expired ttl head'
                    else:
                        lic = 'full insert evicts the policy victim'
        elif k == 'CLEAN':
            if roles.kind == 'maplist':
                if ops.is_purge_iter(seg):
                    lic = 'purge of an expired node'
            else:
                ex = [c for c in seg.conds if c[0] in ('EXPIRED', 'EXPIRED_STRICT') and c[2] and same_ent(c[1][0], ent)]
                if ex and ent.kind == 'AUXHEAD':
                    lic = 'clean removes the expired ttl head'
        if lic is None and roles.kind == 'maplist' and ops.is_purge_iter(seg) and ent.kind == 'VIA':
            lic = 'purge of an expired node'
        res.ob('R-REMOVE-LICENSE', ok=lic is not None)
        res.sample(dict(container=cm.name, method=where, valuation=val, removes=repr(ent), licence=lic), cap=10)
        if lic is None:
            V(res, prop, 'R-REMOVE-LICENSE', cm, where, 'removes %s without licence (%s path)' % (ent.kind, k.lower()), e.site,
              'path [%s] of %s removes entry %r; a live entry may only leave by erase(k), clear(), expiry, or as the single victim of a full insert'
              % (val, m.key(), ent))
    # exactly one victim per full insert, before the bind, and the size stays at capacity
    if k == 'INSERT' and present is False:
        ok = len(unb) <= 1
        if unb and binds:
            ok = ok and seg.effects.index(unb[0]) < seg.effects.index(binds[0])
        res.ob('R-ONE-VICTIM', ok=ok)
        if not ok:
            V(res, prop, 'R-ONE-VICTIM', cm, where, '%d removals on one insert path' % len(unb), unb[-1].site,
              'an insert into a full cache removes exactly one entry, before the new key is bound [%s]' % val)
        if unb and roles.counter is not None and roles.name != 'fifo_cache':
            n = net(effs, 'CNT')
            okn = (n == 0) and bool(binds)
            res.ob('R-FULL-STAYS-FULL', ok=okn)
            if not okn:
                V(res, prop, 'R-FULL-STAYS-FULL', cm, where, 'evicting insert changes size by %s' % n, unb[0].site,
                  'an insert that evicts must leave size() at capacity [%s]' % val)
    if k == 'INSERT' and present is True and unb:
        pass  # already reported above as unlicensed


def same_key(ent, seg):
    for c in seg.conds_of('PRESENT'):
        if c[1][0] == ent.arg:
            return True
    return False


def rule_c02_c03_shared_full_test(an, res, prop):
    """the eviction trigger must be exactly `size >= capacity` (FULL): evict-while-free-slot or overflow otherwise"""
    for cm, roles in an.classes():
        if roles.counter is None or roles.name == 'fifo_cache':
            continue
        for m in an.entry_points(cm):
            if ops.kind_of(m) != 'INSERT':
                continue
            for top in method_segments(an, cm, roles, m):
                for b in ops.find_bodies(top, m):
                    seg = b.seg
                    if seg.cond('PRESENT') is not False or not seg.effs('BIND'):
                        continue
                    odd = [c for c in seg.conds if c[0] in ('OVERFULL', 'CAPCMP', 'ATCAP')]
                    has_full = seg.cond('FULL') is not None
                    ok = has_full and not odd
                    res.ob('R-FULL-TEST', ok=ok)
                    if not ok:
                        c = odd[0] if odd else None
                        V(res, prop, 'R-FULL-TEST', cm, b.where, 'eviction trigger is not `size >= capacity`', c[3] if c else site_of_seg(seg, m),
                          'binding path [%s] is not guarded by the test size >= capacity (found %s)' % (' '.join(seg.valuation()), c[0] if c else 'no capacity test'))
