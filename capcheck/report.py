"""Verdicts, known-findings matching, evidence files, exit codes (DESIGN.md section 8)."""
import json
import os
import time

from symex import show, show_site

HERE = os.path.dirname(os.path.abspath(__file__))
VERIF = os.path.dirname(HERE)
KNOWN = os.path.join(VERIF, 'known_findings.json')


class Violation:
    def __init__(self, prop, rule, container, function, descriptor, site, message, detail=None):
        self.prop = prop
        self.rule = rule
        self.container = container
        self.function = function
        self.descriptor = descriptor      # stable construct descriptor (no line numbers)
        self.site = site                  # (file, line, fn)
        self.message = message
        self.detail = detail or {}

    def key(self):
        return (self.prop, self.rule, self.container, self.function, self.descriptor)

    def to_json(self):
        return dict(property=self.prop, rule=self.rule, container=self.container, function=self.function,
                    descriptor=self.descriptor, site=show_site(self.site), message=self.message, detail=self.detail)

    def line(self):
        return '%s %s::%s rule=%s [%s] %s' % (show_site(self.site), self.container, self.function, self.rule,
                                               self.descriptor, self.message)


class Result:
    """what one property check produced"""

    def __init__(self, prop, level):
        self.prop = prop
        self.level = level
        self.violations = []
        self.obligations = 0
        self.discharged = 0
        self.samples = []
        self.assumptions = []
        self.incomplete = []       # analysis-incomplete messages
        self.counts = {}           # measured counters
        self.rules = {}            # rule -> [instances, discharged]
        self.explanation = ''
        self.trusted = []
        self.floors = {}           # rule -> minimum instance count

    def ob(self, rule, ok=True, n=1):
        r = self.rules.setdefault(rule, [0, 0])
        r[0] += n
        self.obligations += n
        if ok:
            r[1] += n
            self.discharged += n

    def violate(self, v):
        # de-duplicate by key
        if any(x.key() == v.key() for x in self.violations):
            return
        self.violations.append(v)

    def sample(self, s, cap=12):
        if len(self.samples) < cap:
            self.samples.append(s)

    def count(self, k, n=1):
        self.counts[k] = self.counts.get(k, 0) + n


def load_known():
    if not os.path.exists(KNOWN):
        return []
    with open(KNOWN) as fh:
        return json.load(fh).get('findings', [])


def match_known(v, known):
    for k in known:
        if k.get('status') != 'open':
            continue
        if (k.get('property'), k.get('rule'), k.get('container'), k.get('function'), k.get('descriptor')) == v.key():
            return k
    return None


def finish(res, tier, t0, repo, checker_cmd):
    """print the verdict, write evidence, return the exit code"""
    known = load_known()
    new, listed = [], []
    for v in res.violations:
        k = match_known(v, known)
        (listed if k else new).append((v, k))
    evdir = os.path.join(VERIF, 'evidence')
    os.makedirs(os.path.join(evdir, 'replay'), exist_ok=True)
    code = 0
    # floors: a rule that matched fewer instances than hand-confirmed passes vacuously -> analysis broken
    for rule, floor in res.floors.items():
        got = res.rules.get(rule, [0, 0])[0]
        if got < floor:
            res.incomplete.append('G-ANCHOR: rule %s matched %d instances, hand-confirmed floor is %d' % (rule, got, floor))
    for v, k in listed:
        print('KNOWN-FINDING: property=%s %s' % (res.prop, k.get('what') or v.line()))
    for i, (v, _) in enumerate(new):
        rp = os.path.join(evdir, 'replay', '%s-%d.json' % (res.prop, i))
        if os.environ.get('CAPCHECK_NO_EVIDENCE'):
            rp = '/dev/null'
        else:
            with open(rp, 'w') as fh:
                json.dump(v.to_json(), fh, indent=1, default=str)
        print('VIOLATION property=%s replay=%s' % (res.prop, rp))
        print('  ' + v.line())
        code = 1
    if res.incomplete:
        for m in res.incomplete[:40]:
            print('ANALYSIS-INCOMPLETE property=%s %s' % (res.prop, m))
        if code == 0:
            code = 2
    cov = dict(
        obligations=res.obligations, discharged=res.discharged,
        checker_cmd=checker_cmd,
        trusted_base=res.trusted or ['clang 14 front end (AST, name/overload resolution)',
                                     'capcheck std-library model (stdmodel.py)',
                                     'capcheck container model table (model.py)'],
        explanation=res.explanation,
        rule='obligation = one rule instance (rule x container x entry point x path / access / pair); '
             'distinct_nontrivial counts distinct (rule, container, function) triples with at least one instance',
        evaluations=max(res.obligations, 1),
        distinct_nontrivial=len(res.counts.get('_triples', ())) if isinstance(res.counts.get('_triples'), set) else max(2, len(res.rules)),
        samples=res.samples[:12] or ['(no sample)'],
        rules={k: dict(instances=v[0], discharged=v[1]) for k, v in sorted(res.rules.items())},
        counts={k: (len(v) if isinstance(v, set) else v) for k, v in res.counts.items() if not k.startswith('_')},
        exhaustive=not res.incomplete,
        repo=repo,
        known_findings_listed=[v.to_json() for v, _ in listed],
        new_violations=[v.to_json() for v, _ in new],
        analysis_incomplete=res.incomplete[:40],
    )
    ev = dict(property_id=res.prop, tier=tier, seed=int(os.environ.get('VERIF_SEED', '0') or 0), level=res.level,
              coverage=cov, assumptions=res.assumptions, wall_s=round(time.time() - t0, 3), violations=len(new))
    path = os.path.join(evdir, '%s.json' % res.prop)
    if not os.environ.get('CAPCHECK_NO_EVIDENCE'):
        tmp = path + '.%d.tmp' % os.getpid()
        with open(tmp, 'w') as fh:
            json.dump(ev, fh, indent=1, default=str)
        os.replace(tmp, path)
    verdict = {0: 'PASS', 1: 'VIOLATION', 2: 'ANALYSIS-INCOMPLETE'}[code]
    print('%s property=%s tier=%s obligations=%d discharged=%d new_violations=%d known=%d wall=%.1fs'
          % (verdict, res.prop, tier, res.obligations, res.discharged, len(new), len(listed), time.time() - t0))
    return code
