"""Container model table (DESIGN.md section 4): which field plays which role.

Frozen by reading the headers; verified against the type-checked AST on every run
(G-ANCHOR).  A role that no longer resolves to a field of the expected type class
is an analysis failure (exit 2), never a pass and never a violation.
"""
from frontend import AnalysisIncomplete
from stdmodel import typeclass

ROLES = {
    'lru_cache': dict(kind='slotvec', slots='m_elements', index='m_keyed_elements', counter='m_used_size',
                      order='m_lru_list', part='m_lru_end', aux={},
                      backptrs={'m_keyed_position': 'index', 'm_lru_position': 'order'}, value='m_value',
                      policy='lru', peek='enum'),
    'mru_cache': dict(kind='slotvec', slots='m_elements', index='m_keyed_elements', counter='m_used_size',
                      order='m_mru_list', part='m_mru_end', aux={},
                      backptrs={'m_keyed_position': 'index', 'm_mru_position': 'order'}, value='m_value',
                      policy='mru', peek='enum'),
    'tlru_cache': dict(kind='slotvec', slots='m_elements', index='m_keyed_elements', counter='m_used_size',
                       order='m_lru_list', part='m_lru_end', aux={'m_ttl_list': 'ttl'},
                       backptrs={'m_keyed_position': 'index', 'm_lru_position': 'order', 'm_ttl_position': 'm_ttl_list'},
                       value='m_value', deadline='m_expire_time', policy='lru', peek='enum', ttl='param'),
    'utlru_cache': dict(kind='slotvec', slots='m_elements', index='m_keyed_elements', counter='m_used_size',
                        order='m_lru_list', part='m_lru_end', aux={'m_ttl_list': 'ttl'},
                        backptrs={'m_keyed_position': 'index', 'm_lru_position': 'order', 'm_ttl_position': 'm_ttl_list'},
                        value='m_value', deadline='m_expire_time', policy='lru', peek='enum', ttl='m_ttl',
                        config=['m_ttl']),
    'rr_cache': dict(kind='slotvec', slots='m_elements', index='m_keyed_elements', counter='m_open_list_end',
                     order=None, part='m_open_list_end', perm='m_open_list', aux={},
                     backptrs={'m_keyed_position': 'index', 'm_open_list_position': 'perm'}, value='m_value',
                     policy='rr', rng=['m_mt', 'm_random_device']),
    'fifo_cache': dict(kind='nodelist', slots=None, index='m_keyed_elements', counter='m_used_size',
                       order='m_fifo_list', part=None, aux={},
                       backptrs={'m_keyed_position': 'index'}, value='m_value', policy='fifo', optional_backptr=True),
    'lfu_cache': dict(kind='nodelist', slots=None, index='m_keyed_elements', counter='m_used_size',
                      order='m_open_list', part='m_open_list_end', aux={'m_lfu_list': 'count'},
                      backptrs={'m_keyed_position': 'index', 'm_lfu_position': 'm_lfu_list'}, value='m_value',
                      policy='lfu', peek='bool'),
    'lfuda_cache': dict(kind='nodelist', slots=None, index='m_keyed_elements', counter='m_used_size',
                        order='m_dynamic_age_list', part='m_open_list_end', aux={'m_lfu_list': 'count'},
                        backptrs={'m_keyed_position': 'index', 'm_lfu_position': 'm_lfu_list'}, value='m_value',
                        stamp='m_dynamic_age', policy='lfuda', peek='bool',
                        config=['m_dynamic_age_tick', 'm_dynamic_age_ratio'], tick='m_dynamic_age_tick',
                        ratio='m_dynamic_age_ratio'),
    'ut_map': dict(kind='maplist', slots=None, index='m_keyed_elements', counter=None, order=None, part=None,
                   aux={'m_ttl_list': 'ttl'}, backptrs={'m_ttl_position': 'm_ttl_list', 'm_keyed_elements_position': 'index'},
                   value='m_value', deadline='m_expire_time', policy='none', ttl='m_uniform_ttl', config=['m_uniform_ttl']),
    'ut_set': dict(kind='maplist', slots=None, index='m_keyed_elements', counter=None, order=None, part=None,
                   aux={'m_ttl_list': 'ttl'}, backptrs={'m_ttl_position': 'm_ttl_list', 'm_keyed_elements_position': 'index'},
                   value=None, deadline='m_expire_time', policy='none', ttl='m_uniform_ttl', config=['m_uniform_ttl']),
}

EXPECT = {  # role -> acceptable type classes of the field
    'slots': ('vector',), 'index': ('umap', 'map'), 'order': ('list',), 'perm': ('vector',),
}

TTL_CONTAINERS = ('tlru_cache', 'utlru_cache', 'ut_map', 'ut_set')
CACHES = ('lru_cache', 'mru_cache', 'rr_cache', 'fifo_cache', 'lfu_cache', 'lfuda_cache', 'tlru_cache', 'utlru_cache')


def THIS(name):
    return ('fld', ('this',), name)


class Roles:
    def __init__(self, cm):
        self.cm = cm
        r = ROLES.get(cm.name)
        if r is None:
            raise AnalysisIncomplete('G-ANCHOR: no model for container %s' % cm.name)
        self.__dict__.update(r)
        self.name = cm.name
        probs = []
        fields = cm.field_by_name
        for role in ('slots', 'index', 'order', 'perm', 'counter', 'part'):
            f = r.get(role)
            if f is None:
                continue
            if f not in fields:
                probs.append('%s: role %s -> field %s not found' % (cm.name, role, f))
                continue
            if role in EXPECT and typeclass(fields[f].type) not in EXPECT[role]:
                probs.append('%s: role %s -> field %s has type class %s (%s), expected %s'
                             % (cm.name, role, f, typeclass(fields[f].type), fields[f].type[:60], EXPECT[role]))
        for a in r.get('aux', {}):
            if a not in fields:
                probs.append('%s: aux structure %s not found' % (cm.name, a))
        for c in r.get('config', []) + r.get('rng', []):
            if c not in fields:
                probs.append('%s: field %s not found' % (cm.name, c))
        if 'm_lock' not in fields or typeclass(fields['m_lock'].type) != 'mutex':
            probs.append('%s: m_lock of type cappuccino::mutex<> not found' % cm.name)
        # element record fields
        recs = cm.records
        allrec = set()
        for rec in recs.values():
            for f in rec.fields:
                allrec.add(f.name)
        for bp in r['backptrs']:
            if bp not in allrec:
                probs.append('%s: back-pointer field %s not found in element records' % (cm.name, bp))
        for k in ('value', 'deadline', 'stamp'):
            if r.get(k) and r[k] not in allrec:
                probs.append('%s: element field %s (%s) not found' % (cm.name, r[k], k))
        if probs:
            raise AnalysisIncomplete('G-ANCHOR: ' + '; '.join(probs))
        self.lock = THIS('m_lock')
        self.aux_kind = dict(r.get('aux', {}))
        self.ttl_struct = next((a for a, k in self.aux_kind.items() if k == 'ttl'), None)
        self.count_struct = next((a for a, k in self.aux_kind.items() if k == 'count'), None)
        self.tc = {f.name: typeclass(f.type) for f in cm.fields}

    def field_tc(self, name):
        return self.tc.get(name, 'other')
