"""Container model table (DESIGN.md section 4): which field plays which role.

Frozen by reading the headers; verified against the type-checked AST on every run
(G-ANCHOR).  A role that no longer resolves to a field of the expected type class
is an analysis failure (exit 2), never a pass and never a violation.
"""
from frontend import AnalysisIncomplete
from stdmodel import typeclass

ROLES = {
    'lru_cache': dict(kind='slotvec', slots='m_elements', index='m_keyed_elements', counter='m_used_size',
                      order='m_lru_list', part='m_lru_end', aux={},
                      backptrs={'m_keyed_position': 'index', 'm_lru_position': 'order'}, value='m_value',
                      policy='lru', peek='enum'),
    'mru_cache': dict(kind='slotvec', slots='m_elements', index='m_keyed_elements', counter='m_used_size',
                      order='m_mru_list', part='m_mru_end', aux={},
                      backptrs={'m_keyed_position': 'index', 'm_mru_position': 'order'}, value='m_value',
                      policy='mru', peek='enum'),
    'tlru_cache': dict(kind='slotvec', slots='m_elements', index='m_keyed_elements', counter='m_used_size',
                       order='m_lru_list', part='m_lru_end', aux={'m_ttl_list': 'ttl'},
                       backptrs={'m_keyed_position': 'index', 'm_lru_position': 'order', 'm_ttl_position': 'm_ttl_list'},
                       value='m_value', deadline='m_expire_time', policy='lru', peek='enum', ttl='param'),
    'utlru_cache': dict(kind='slotvec', slots='m_elements', index='m_keyed_elements', counter='m_used_size',
                        order='m_lru_list', part='m_lru_end', aux={'m_ttl_list': 'ttl'},
                        backptrs={'m_keyed_position': 'index', 'm_lru_position': 'order', 'm_ttl_position': 'm_ttl_list'},
                        value='m_value', deadline='m_expire_time', policy='lru', peek='enum', ttl='m_ttl',
                        config=['m_ttl']),
    'rr_cache': dict(kind='slotvec', slots='m_elements', index='m_keyed_elements', counter='m_open_list_end',
                     order=None, part='m_open_list_end', perm='m_open_list', aux={},
                     backptrs={'m_keyed_position': 'index', 'm_open_list_position': 'perm'}, value='m_value',
                     policy='rr', rng=['m_mt', 'm_random_device']),
    'fifo_cache': dict(kind='nodelist', slots=None, index='m_keyed_elements', counter='m_used_size',
                       order='m_fifo_list', part=None, aux={},
                       backptrs={'m_keyed_position': 'index'}, value='m_value', policy='fifo', optional_backptr=True),
    'lfu_cache': dict(kind='nodelist', slots=None, index='m_keyed_elements', counter='m_used_size',
                      order='m_open_list', part='m_open_list_end', aux={'m_lfu_list': 'count'},
                      backptrs={'m_keyed_position': 'index', 'm_lfu_position': 'm_lfu_list'}, value='m_value',
                      policy='lfu', peek='bool'),
    'lfuda_cache': dict(kind='nodelist', slots=None, index='m_keyed_elements', counter='m_used_size',
                        order='m_dynamic_age_list', part='m_open_list_end', aux={'m_lfu_list': 'count'},
                        backptrs={'m_keyed_position': 'index', 'm_lfu_position': 'm_lfu_list'}, value='m_value',
                        stamp='m_dynamic_age', policy='lfuda', peek='bool',
                        config=['m_dynamic_age_tick', 'm_dynamic_age_ratio'], tick='m_dynamic_age_tick',
                        ratio='m_dynamic_age_ratio'),
    'ut_map': dict(kind='maplist', slots=None, index='m_keyed_elements', counter=None, order=None, part=None,
                   aux={'m_ttl_list': 'ttl'}, backptrs={'m_ttl_position': 'm_ttl_list', 'm_keyed_elements_position': 'index'},
                   value='m_value', deadline='m_expire_time', policy='none', ttl='m_uniform_ttl', config=['m_uniform_ttl']),
    'ut_set': dict(kind='maplist', slots=None, index='m_keyed_elements', counter=None, order=None, part=None,
                   aux={'m_ttl_list': 'ttl'}, backptrs={'m_ttl_position': 'm_ttl_list', 'm_keyed_elements_position': 'index'},
                   value=None, deadline='m_expire_time', policy='none', ttl='m_uniform_ttl', config=['m_uniform_ttl']),
}

EXPECT = {  # role -> acceptable type classes of the field
    'slots': ('vector',), 'index': ('umap', 'map'), 'order': ('list',), 'perm': ('vector',),
}

# Coarse type signature of every member the table above (or a rule) names, frozen from the pinned tree.  Used only when a name
# is missing: a member that was merely renamed is found again by its signature if exactly one unmatched member has it.
SIGS = {
    'fifo_cache': {'class': {'m_fifo_list': 'list<rec>', 'm_keyed_elements': 'umap', 'm_lock': 'mutex', 'm_used_size': 'ulong'},
                   'rec': {'m_keyed_position': 'optional', 'm_value': 'value'}},
    'lfu_cache': {'class': {'m_keyed_elements': 'umap', 'm_lfu_list': 'multimap', 'm_lock': 'mutex', 'm_open_list': 'list<rec>',
                            'm_open_list_end': 'list_it', 'm_used_size': 'ulong'},
                  'rec': {'m_keyed_position': 'umap_it', 'm_lfu_position': 'tree_it', 'm_value': 'value'}},
    'lfuda_cache': {'class': {'m_dynamic_age_list': 'list<rec>', 'm_dynamic_age_ratio': 'float', 'm_dynamic_age_tick': 'duration',
                              'm_keyed_elements': 'umap', 'm_lfu_list': 'multimap', 'm_lock': 'mutex', 'm_open_list_end': 'list_it',
                              'm_used_size': 'ulong'},
                    'rec': {'m_dynamic_age': 'time_point', 'm_keyed_position': 'umap_it', 'm_lfu_position': 'tree_it', 'm_value': 'value'}},
    'lru_cache': {'class': {'m_elements': 'vector<rec>', 'm_keyed_elements': 'umap', 'm_lock': 'mutex', 'm_lru_end': 'list_it',
                            'm_lru_list': 'list<scalar>', 'm_used_size': 'ulong'},
                  'rec': {'m_keyed_position': 'umap_it', 'm_lru_position': 'list_it', 'm_value': 'value'}},
    'mru_cache': {'class': {'m_elements': 'vector<rec>', 'm_keyed_elements': 'umap', 'm_lock': 'mutex', 'm_mru_end': 'list_it',
                            'm_mru_list': 'list<scalar>', 'm_used_size': 'ulong'},
                  'rec': {'m_keyed_position': 'umap_it', 'm_mru_position': 'list_it', 'm_value': 'value'}},
    'rr_cache': {'class': {'m_elements': 'vector<rec>', 'm_keyed_elements': 'umap', 'm_lock': 'mutex', 'm_mt': 'rng',
                           'm_open_list': 'vector<scalar>', 'm_open_list_end': 'ulong', 'm_random_device': 'randdev'},
                 'rec': {'m_keyed_position': 'umap_it', 'm_open_list_position': 'ulong', 'm_value': 'value'}},
    'tlru_cache': {'class': {'m_elements': 'vector<rec>', 'm_keyed_elements': 'umap', 'm_lock': 'mutex', 'm_lru_end': 'list_it',
                             'm_lru_list': 'list<scalar>', 'm_ttl_list': 'multimap', 'm_used_size': 'ulong'},
                   'rec': {'m_expire_time': 'time_point', 'm_keyed_position': 'umap_it', 'm_lru_position': 'list_it',
                           'm_ttl_position': 'tree_it', 'm_value': 'value'}},
    'utlru_cache': {'class': {'m_elements': 'vector<rec>', 'm_keyed_elements': 'umap', 'm_lock': 'mutex', 'm_lru_end': 'list_it',
                              'm_lru_list': 'list<scalar>', 'm_ttl': 'duration', 'm_ttl_list': 'multimap', 'm_used_size': 'ulong'},
                    'rec': {'m_expire_time': 'time_point', 'm_keyed_position': 'umap_it', 'm_lru_position': 'list_it',
                            'm_ttl_position': 'tree_it', 'm_value': 'value'}},
    'ut_map': {'class': {'m_keyed_elements': 'map', 'm_lock': 'mutex', 'm_ttl_list': 'list<rec>', 'm_uniform_ttl': 'duration'},
               'rec': {'m_expire_time': 'time_point', 'm_keyed_elements_position': 'tree_it', 'm_ttl_position': 'list_it',
                       'm_value': 'value'}},
    'ut_set': {'class': {'m_keyed_elements': 'map', 'm_lock': 'mutex', 'm_ttl_list': 'list<rec>', 'm_uniform_ttl': 'duration'},
               'rec': {'m_expire_time': 'time_point', 'm_keyed_elements_position': 'tree_it', 'm_ttl_position': 'list_it'}},
}


# Parameter names of the public API as on the pinned tree (the rules name subjects as ('p', <name>)); a renamed parameter is
# recognised by its position among the overloads of the same arity (iterator-pair overloads: first two parameters of one type).
PARAMS = {
    '<ctor>': {'lfuda_cache': ['capacity', 'dynamic_age_tick', 'dynamic_age_ratio', 'max_load_factor'],
               'utlru_cache': ['ttl', 'capacity', 'max_load_factor'], 'ut_map': ['uniform_ttl'], 'ut_set': ['uniform_ttl'],
               '*': ['capacity', 'max_load_factor']},
    'insert': {'tlru_cache': [['ttl', 'key', 'value', 'a']], 'ut_set': [['key', 'a']],
               '*': [['key', 'value', 'a'], ['begin', 'end', 'a']]},
    'insert_range': {'ut_set': [['key_range', 'a']], '*': [['key_value_range', 'a']]},
    'erase': {'*': [['key'], ['begin', 'end']]},
    'erase_range': {'*': [['key_range']]},
    'find': {'*': [['key'], ['key', 'peek'], ['begin', 'end', 'distance']]},
    'find_with_use_count': {'*': [['key', 'peek']]},
    'find_range': {'*': [['key_range'], ['key_range', 'peek']]},
    'find_range_fill': {'ut_set': [['key_bool_range']],
                        '*': [['key_optional_value_range'], ['key_optional_value_range', 'peek'], ['begin', 'end']]},
    'update_ttl': {'*': [['ttl']]},
}


def canonical_params(cname, m):
    if m.is_ctor:
        names = PARAMS['<ctor>'].get(cname, PARAMS['<ctor>']['*'])
        return names if len(names) == len(m.params) else None
    tab = PARAMS.get(m.name)
    if tab is None:
        return None
    cands = [c for c in tab.get(cname, tab['*']) if len(c) == len(m.params)]
    if not cands and cname in tab:
        cands = [c for c in tab['*'] if len(c) == len(m.params)]
    if len(cands) > 1:
        t = [p['type'].get('qualType', '') for p in m.params]
        pair = len(t) >= 2 and t[0] == t[1]
        cands = [c for c in cands if (c[0] == 'begin') == pair]
    return cands[0] if len(cands) == 1 else None


def rec_owner(cname, field):
    """name of the nested record an element member belongs to on the pinned tree"""
    if cname in ('ut_map', 'ut_set'):
        return 'keyed_element' if field in ('m_value', 'm_ttl_position') else 'ttl_element'
    return 'element'


def member_sig(t, records, in_record=False):
    import re
    tc = typeclass(t)
    t2 = (t or '').replace('const ', '').strip()
    if tc in ('vector', 'list'):
        return tc + ('<rec>' if any(('::' + r) in t2 for r in records) else '<scalar>')
    if tc == 'multimap':
        inner = t2.split('<', 1)[1] if '<' in t2 else ''
        depth, key = 0, inner
        for i, ch in enumerate(inner):
            if ch == '<':
                depth += 1
            elif ch == '>':
                depth -= 1
            elif ch == ',' and depth == 0:
                key = inner[:i]
                break
        if any(key.rstrip().endswith('::' + r) for r in records):
            return 'multimap<rec-key>'        # a user-defined key type with its own ordering: outside the model
    if tc == 'other':
        if t2 in ('unsigned long', 'size_t', 'std::size_t', 'unsigned long long'):
            return 'ulong'
        if t2 == 'float':
            return 'float'
    if in_record and tc == 'duration':
        return 'time_point'        # a point in time kept as the duration since the clock's epoch (time_since_epoch())
    if in_record and tc not in ('umap_it', 'tree_it', 'list_it', 'vec_it', 'optional', 'time_point'):
        return 'ulong' if t2 in ('unsigned long', 'size_t', 'std::size_t') else 'value'
    return tc


def canonicalise_names(prog):
    """rename members that were merely renamed in the source back to the names the model uses (in the loaded AST only):
    a missing expected member is matched with the one unexpected member of the same coarse type signature.  -> list of notes"""
    from frontend import _walk
    notes = []
    for cname, sg in SIGS.items():
        cm = prog.classes.get(cname)
        if cm is None:
            continue
        # public API parameters
        for m in cm.methods:
            if m.access != 'public':
                continue
            want = canonical_params(cname, m)
            if want is None:
                continue
            for p, w in zip(m.params, want):
                if p.get('name') != w:
                    notes.append('%s::%s: parameter %s taken for %s' % (cname, m.name, p.get('name'), w))
                    p['name'] = w
        ren = {}        # FieldDecl id -> canonical name
        have = {f.name: f for f in cm.fields}
        missing = [n for n in sg['class'] if n not in have]
        extra = [f for f in cm.fields if f.name not in sg['class']]
        for n in missing:
            cands = [f for f in extra if member_sig(f.type, cm.records) == sg['class'][n] and f.id not in ren]
            if len(cands) == 1:
                ren[cands[0].id] = n
                notes.append('%s: member %s taken for %s (same type signature %s)' % (cname, cands[0].name, n, sg['class'][n]))
                cands[0].name = n
                cands[0].node['name'] = n
        allrec = [f for rec in cm.records.values() for f in rec.fields]
        rhave = {f.name for rn, rec in cm.records.items() for f in rec.fields if rn == rec_owner(cname, f.name)}
        rmissing = [n for n in sg['rec'] if n not in rhave]
        rextra = [f for f in allrec if f.name not in sg['rec']]
        for n in rmissing:
            cands = [f for f in rextra if member_sig(f.type, cm.records, True) == sg['rec'][n] and f.id not in ren
                     and f.owner.name == rec_owner(cname, n)]
            if len(cands) == 1:
                ren[cands[0].id] = n
                notes.append('%s: record member %s taken for %s (same type signature %s)' % (cname, cands[0].name, n, sg['rec'][n]))
                cands[0].name = n
                cands[0].node['name'] = n
        if not ren:
            continue
        cm.field_by_name = {f.name: f for f in cm.fields}
        for node in _walk(cm.node):
            if node.get('kind') == 'MemberExpr' and node.get('referencedMemberDecl') in ren:
                node['name'] = ren[node['referencedMemberDecl']]
            ai = node.get('anyInit')
            if isinstance(ai, dict) and ai.get('id') in ren:
                ai['name'] = ren[ai['id']]
        for m in cm.methods:
            for node in _walk(m.node):
                if node.get('kind') == 'MemberExpr' and node.get('referencedMemberDecl') in ren:
                    node['name'] = ren[node['referencedMemberDecl']]
                ai = node.get('anyInit')
                if isinstance(ai, dict) and ai.get('id') in ren:
                    ai['name'] = ren[ai['id']]
    return notes


TTL_CONTAINERS = ('tlru_cache', 'utlru_cache', 'ut_map', 'ut_set')
CACHES = ('lru_cache', 'mru_cache', 'rr_cache', 'fifo_cache', 'lfu_cache', 'lfuda_cache', 'tlru_cache', 'utlru_cache')


def THIS(name):
    return ('fld', ('this',), name)


class Roles:
    def __init__(self, cm, lenient=False):
        self.cm = cm
        self.anchor_problems = []
        r = ROLES.get(cm.name)
        if r is None:
            raise AnalysisIncomplete('G-ANCHOR: no model for container %s' % cm.name)
        self.__dict__.update(r)
        self.name = cm.name
        probs = []
        fields = cm.field_by_name
        for role in ('slots', 'index', 'order', 'perm', 'counter', 'part'):
            f = r.get(role)
            if f is None:
                continue
            if f not in fields:
                probs.append('%s: role %s -> field %s not found' % (cm.name, role, f))
                continue
            if role in EXPECT and typeclass(fields[f].type) not in EXPECT[role]:
                probs.append('%s: role %s -> field %s has type class %s (%s), expected %s'
                             % (cm.name, role, f, typeclass(fields[f].type), fields[f].type[:60], EXPECT[role]))
        for a in r.get('aux', {}):
            if a not in fields:
                probs.append('%s: aux structure %s not found' % (cm.name, a))
        for c in r.get('config', []) + r.get('rng', []):
            if c == 'm_random_device':
                continue            # a member only the constructor uses to seed the engine; a temporary does the same
            if c not in fields:
                probs.append('%s: field %s not found' % (cm.name, c))
        if 'm_lock' not in fields or typeclass(fields['m_lock'].type) != 'mutex':
            probs.append('%s: m_lock of type cappuccino::mutex<> not found' % cm.name)
        # element record fields
        recs = cm.records
        allrec = set()
        for rec in recs.values():
            for f in rec.fields:
                allrec.add(f.name)
        for bp in r['backptrs']:
            if bp not in allrec:
                probs.append('%s: back-pointer field %s not found in element records' % (cm.name, bp))
        for k in ('value', 'deadline', 'stamp'):
            if r.get(k) and r[k] not in allrec:
                probs.append('%s: element field %s (%s) not found' % (cm.name, r[k], k))
        # the representation the model was written for: every member it names still has the coarse type it had on the pinned tree
        sg = SIGS.get(cm.name)
        if sg:
            for n, want in sg['class'].items():
                if n in fields and member_sig(fields[n].type, recs) != want and not (want == 'umap' and member_sig(fields[n].type, recs) == 'map'):
                    probs.append('%s: member %s now has type %s (%s), the model expects %s' % (cm.name, n, fields[n].type[:60], member_sig(fields[n].type, recs), want))
            for rn, rec in recs.items():
                for f in rec.fields:
                    want = sg['rec'].get(f.name)
                    if want and want != 'value' and rn == rec_owner(cm.name, f.name) and member_sig(f.type, recs, True) != want \
                            and not (want == 'umap_it' and member_sig(f.type, recs, True) == 'tree_it'):      # tree index: same iterator discipline
                        probs.append('%s: element member %s now has type %s, the model expects %s' % (cm.name, f.name, f.type[:60], want))
            for n in sg['rec']:
                own = recs.get(rec_owner(cm.name, n))
                if own is None or n not in [f.name for f in own.fields]:
                    probs.append('%s: element member %s not found in %s' % (cm.name, n, rec_owner(cm.name, n)))
        if probs and not (lenient and not any('m_lock' in p for p in probs)):
            raise AnalysisIncomplete('G-ANCHOR: ' + '; '.join(probs))
        # lenient (lock analysis only): the behavioural model does not fit this representation, but which accesses happen under
        # this->m_lock does not depend on it
        self.anchor_problems = probs
        self.lock = THIS('m_lock')
        self.aux_kind = dict(r.get('aux', {}))
        self.ttl_struct = next((a for a, k in self.aux_kind.items() if k == 'ttl'), None)
        self.count_struct = next((a for a, k in self.aux_kind.items() if k == 'count'), None)
        self.tc = {f.name: typeclass(f.type) for f in cm.fields}

    def field_tc(self, name):
        return self.tc.get(name, 'other')
