"""Property -> rules dispatch."""
import json
import os

import locks
from analysis import Analysis
from report import Result

LEVEL = {'C06': 'proof', 'C07': 'proof'}
_AN = {}


def analysis(repo, ts='yes', **kw):
    k = (repo, ts, tuple(sorted(kw.items())))
    if k not in _AN:
        _AN[k] = Analysis(repo, ts=ts, **kw)
    return _AN[k]


def c06(tier, repo):
    res = Result('C06', 'proof')
    an = analysis(repo)
    locks.analyse(an, res, None)
    res.incomplete += an.incomplete
    res.explanation = ('Reduction (DESIGN.md 6.C06): every public method of every thread_safe::yes container performs all accesses '
                       'to mutable container state inside one critical section of this->m_lock (L1), the section is never re-taken '
                       'or taken per loop iteration, returns values only (L3), the wrapper reaches std::mutex (L4), no re-acquisition (L5). '
                       'All control-flow paths of all public methods with helpers inlined were enumerated.')
    res.assumptions += ['a single critical section per call of one common mutex implies linearizability in lock-acquisition order '
                        '(pen-and-paper reduction, DESIGN.md 6.C06)',
                        'clock samples taken before the lock are outside the property (its own exclusion)',
                        'constructors/destructors are not concurrent with other calls']
    res.floors = {'L1-ONE-REGION': 100, 'L3-NO-ESCAPE': 100}
    return res


def c07(tier, repo):
    res = Result('C07', 'proof')
    an = analysis(repo)
    locks.analyse(an, None, res)
    res.incomplete += an.incomplete
    res.explanation = ('Lockset analysis (DESIGN.md 6.C07): for every access to a data member (or memory reached through it) on every '
                       'path of every public method, either the access is inside the critical section of this->m_lock or no '
                       'conflicting access exists in any public method; conflicts follow [res.on.data.races] / '
                       '[container.requirements.dataraces] (structure writes conflict with everything on that container, content '
                       'writes with content accesses).  Also evaluated pairwise per unordered pair of public methods.')
    res.assumptions += ['std-library access model of stdmodel.py (const member = read, non-const = structure write; element access via '
                        'operator[]/iterators counts as structure read)',
                        'constructors/destructors are not concurrent with other calls',
                        'user key/value operations do not touch the container']
    res.floors = {'LOCKSET': 1000, 'PAIR-RACE-FREE': 500}
    return res


CHECKS = {'C06': c06, 'C07': c07}


def run(pid, tier, repo, replay=None):
    return CHECKS[pid](tier, repo)
