"""Property -> rules dispatch."""
import json
import os

import locks
import rules_seq
from analysis import Analysis
from report import Result

LEVEL = {'C06': 'proof', 'C07': 'proof', 'C09': 'proof', 'C19': 'proof'}
_AN = {}


def analysis(repo, ts='yes', **kw):
    k = (repo, ts, tuple(sorted(kw.items())))
    if k not in _AN:
        _AN[k] = Analysis(repo, ts=ts, **kw)
    return _AN[k]


def c06(tier, repo):
    res = Result('C06', 'proof')
    an = analysis(repo)
    locks.analyse(an, res, None)
    res.incomplete += an.incomplete
    res.explanation = ('Reduction (DESIGN.md 6.C06): every public method of every thread_safe::yes container performs all accesses '
                       'to mutable container state inside one critical section of this->m_lock (L1), the section is never re-taken '
                       'or taken per loop iteration, returns values only (L3), the wrapper reaches std::mutex (L4), no re-acquisition (L5). '
                       'All control-flow paths of all public methods with helpers inlined were enumerated.')
    res.assumptions += ['a single critical section per call of one common mutex implies linearizability in lock-acquisition order '
                        '(pen-and-paper reduction, DESIGN.md 6.C06)',
                        'clock samples taken before the lock are outside the property (its own exclusion)',
                        'constructors/destructors are not concurrent with other calls']
    res.floors = {'L1-ONE-REGION': 100, 'L3-NO-ESCAPE': 100}
    return res


def c07(tier, repo):
    res = Result('C07', 'proof')
    an = analysis(repo)
    locks.analyse(an, None, res)
    res.incomplete += an.incomplete
    res.explanation = ('Lockset analysis (DESIGN.md 6.C07): for every access to a data member (or memory reached through it) on every '
                       'path of every public method, either the access is inside the critical section of this->m_lock or no '
                       'conflicting access exists in any public method; conflicts follow [res.on.data.races] / '
                       '[container.requirements.dataraces] (structure writes conflict with everything on that container, content '
                       'writes with content accesses).  Also evaluated pairwise per unordered pair of public methods.')
    res.assumptions += ['std-library access model of stdmodel.py (const member = read, non-const = structure write; element access via '
                        'operator[]/iterators counts as structure read)',
                        'constructors/destructors are not concurrent with other calls',
                        'user key/value operations do not touch the container']
    res.floors = {'LOCKSET': 1000, 'PAIR-RACE-FREE': 500}
    return res


def c09(tier, repo):
    res = Result('C09', 'proof')
    an = analysis(repo)
    rules_seq.rule_c09(an, res)
    res.incomplete += an.incomplete
    res.explanation = ('Finite decision table (DESIGN.md 6.C09): the allow enumerators and the insert_allowed/update_allowed bodies are '
                       'constant-evaluated from the AST for all three modes; every path of every insert / insert_range body (helpers '
                       'inlined) is classified by presence x update_allowed x insert_allowed x expired and its abstract effect class '
                       '(BIND / UPDATE / none) must equal the table row for every completion of the path valuation; rejected rows '
                       'must be effect-free; the returned bool / the range tally must change exactly on the rows that write.')
    res.assumptions += ['PRESENT in ut_map/ut_set means live because the purge runs first (decided under C02/C04/C17)',
                        'that the UPDATE/BIND effects store the right value and deadline is decided under C01/C05']
    res.floors = {'R-INSERT-TABLE': 80, 'R-REJECT-PURE': 40, 'R-TALLY': 40, 'R-ALLOW-ENC': 7}
    return res


def c19(tier, repo):
    res = Result('C19', 'proof')
    an = analysis(repo)
    rules_seq.rule_noninterference(an, res)
    res.incomplete += an.incomplete
    res.explanation = ('Write-freedom (DESIGN.md 6.C19): every path whose valuation is a peek hit, a miss, a rejected insert or an '
                       'absent-key erase has an empty abstract effect list on container state (so the state is bit-identical and every '
                       'continuation unchanged); in tlru/utlru the only permitted effects on a lookup of an expired key are the removal '
                       'of that very entry; in ut_map/ut_set only the expired-prefix purge.')
    res.assumptions += ['std-library purity classification of stdmodel.py (find/begin/end/size/back are reads)',
                        'copying a value out (optional<V>{e.m_value}) does not modify the stored value']
    res.floors = {'R-PURE-NOOP': 60, 'R-REJECT-PURE': 40}
    return res


CHECKS = {'C06': c06, 'C07': c07, 'C09': c09, 'C19': c19}


def run(pid, tier, repo, replay=None):
    return CHECKS[pid](tier, repo)
