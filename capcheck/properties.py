"""Property -> rules dispatch."""
import json
import os

import locks
import rules_seq
import rules_width
import rules_ttl
import rules_pos
import rules_policy
import rules_misc
from analysis import Analysis
from report import Result

RULES = {}
LEVEL = {'C01': 'other', 'C08': 'other', 'C18': 'other', 'C20': 'other', 'C11': 'other', 'C14': 'other', 'C15': 'other', 'C10': 'other', 'C12': 'other', 'C13': 'other', 'C04': 'other', 'C05': 'other', 'C16': 'other', 'C17': 'other', 'C02': 'other', 'C03': 'other', 'C06': 'proof', 'C07': 'proof', 'C09': 'proof', 'C19': 'proof'}
_AN = {}


def analysis(repo, ts='yes', **kw):
    k = (repo, ts, tuple(sorted(kw.items())))
    if k not in _AN:
        _AN[k] = Analysis(repo, ts=ts, **kw)
    _AN[k].touched = set()          # which containers the rules of the check that starts now look at (Analysis.relevant)
    return _AN[k]


def annotate(res, an):
    """what the front end had to adapt to on this tree (recorded in the evidence, never silently)"""
    notes = list(getattr(an, 'renamed', []))
    notes += ['not analysed (uninstantiated member template outside the documented API): %s' % t for t in getattr(an.prog, 'skipped_templates', [])]
    notes += ['public member template outside the documented API instantiated by trial compilation: %s' % t for t in getattr(an.prog, 'auto_instantiated', [])]
    for name in an.roles:
        for m in an.prog.classes[name].methods:
            if getattr(m, 'eff_kind', None) not in (None, 'UNKNOWN'):
                notes.append('%s::%s is not named by the properties: judged as %s by what it does' % (name, m.key(), m.eff_kind))
    for name, r in an.roles.items():
        if getattr(r, 'inert', None):
            notes.append('%s: bookkeeping members that never reach a decision / result (not container state for the behavioural rules): %s'
                         % (name, ', '.join(sorted(r.inert))))
    if notes:
        res.assumptions += ['front-end adaptation: ' + x for x in notes[:12]]


def lock_analysis_context(repo, res):
    """C06 / C07 only need to know which accesses happen under this->m_lock: when the behavioural model's anchors do not fit the tree
    (a member changed its type, a field of the model is gone) the lock analysis still runs, with the misfit recorded"""
    from frontend import AnalysisIncomplete
    try:
        an = analysis(repo)
        if not getattr(an, 'broken', None):
            return an
        why = '; '.join(an.broken.values())
    except AnalysisIncomplete as e:
        if 'G-ANCHOR' not in str(e):
            raise
        why = str(e)
    an = analysis(repo, lenient=True)
    res.assumptions.append('container model anchors do not fit this tree (%s): only the lock discipline is decided here' % why[:200])
    return an


def c06(tier, repo):
    res = Result('C06', 'proof')
    an = lock_analysis_context(repo, res)
    locks.analyse(an, res, None)
    res.incomplete += [x for x in an.incomplete if an.relevant(x)]
    annotate(res, an)
    res.explanation = ('Reduction (DESIGN.md 6.C06): every public method of every thread_safe::yes container performs all accesses '
                       'to mutable container state inside one critical section of this->m_lock (L1), the section is never re-taken '
                       'or taken per loop iteration, returns values only (L3), the wrapper reaches std::mutex (L4), no re-acquisition (L5). '
                       'All control-flow paths of all public methods with helpers inlined were enumerated.')
    res.assumptions += ['a single critical section per call of one common mutex implies linearizability in lock-acquisition order '
                        '(pen-and-paper reduction, DESIGN.md 6.C06)',
                        'clock samples taken before the lock are outside the property (its own exclusion)',
                        'constructors/destructors are not concurrent with other calls']
    res.floors = {'L1-ONE-REGION': 100, 'L3-NO-ESCAPE': 100}
    return res


def c07(tier, repo):
    res = Result('C07', 'proof')
    an = lock_analysis_context(repo, res)
    locks.analyse(an, None, res)
    res.incomplete += [x for x in an.incomplete if an.relevant(x)]
    annotate(res, an)
    res.explanation = ('Lockset analysis (DESIGN.md 6.C07): for every access to a data member (or memory reached through it) on every '
                       'path of every public method, either the access is inside the critical section of this->m_lock or no '
                       'conflicting access exists in any public method; conflicts follow [res.on.data.races] / '
                       '[container.requirements.dataraces] (structure writes conflict with everything on that container, content '
                       'writes with content accesses).  Also evaluated pairwise per unordered pair of public methods.')
    res.assumptions += ['std-library access model of stdmodel.py (const member = read, non-const = structure write; element access via '
                        'operator[]/iterators counts as structure read)',
                        'constructors/destructors are not concurrent with other calls',
                        'user key/value operations do not touch the container']
    res.floors = {'LOCKSET': 1000, 'PAIR-RACE-FREE': 500}
    return res


def c09(tier, repo):
    res = Result('C09', 'proof')
    an = analysis(repo)
    rules_seq.rule_c09(an, res)
    res.incomplete += [x for x in an.incomplete if an.relevant(x)]
    annotate(res, an)
    res.explanation = ('Finite decision table (DESIGN.md 6.C09): the allow enumerators and the insert_allowed/update_allowed bodies are '
                       'constant-evaluated from the AST for all three modes; every path of every insert / insert_range body (helpers '
                       'inlined) is classified by presence x update_allowed x insert_allowed x expired and its abstract effect class '
                       '(BIND / UPDATE / none) must equal the table row for every completion of the path valuation; rejected rows '
                       'must be effect-free; the returned bool / the range tally must change exactly on the rows that write.')
    res.assumptions += ['PRESENT in ut_map/ut_set means live because the purge runs first (decided under C02/C04/C17)',
                        'that the UPDATE/BIND effects store the right value and deadline is decided under C01/C05']
    res.floors = {'R-INSERT-TABLE': 80, 'R-REJECT-PURE': 40, 'R-TALLY': 40, 'R-ALLOW-ENC': 7}
    return res


def c19(tier, repo):
    res = Result('C19', 'proof')
    an = analysis(repo)
    rules_seq.rule_noninterference(an, res)
    res.incomplete += [x for x in an.incomplete if an.relevant(x)]
    annotate(res, an)
    res.explanation = ('Write-freedom (DESIGN.md 6.C19): every path whose valuation is a peek hit, a miss, a rejected insert or an '
                       'absent-key erase has an empty abstract effect list on container state (so the state is bit-identical and every '
                       'continuation unchanged); in tlru/utlru the only permitted effects on a lookup of an expired key are the removal '
                       'of that very entry; in ut_map/ut_set only the expired-prefix purge.')
    res.assumptions += ['std-library purity classification of stdmodel.py (find/begin/end/size/back are reads)',
                        'copying a value out (optional<V>{e.m_value}) does not modify the stored value']
    res.floors = {'R-PURE-NOOP': 60, 'R-REJECT-PURE': 40}
    return res


def c02(tier, repo):
    res = Result('C02', 'other')
    an = analysis(repo)
    rules_seq.rule_c02(an, res)
    rules_seq.rule_c02_c03_shared_full_test(an, res, 'C02')
    rules_width.check(an, res, 'C02', ('field',))
    res.incomplete += [x for x in an.incomplete if an.relevant(x)]
    annotate(res, an)
    res.assumptions.append('R-WIDTH: counters, slot indices and use counts are declared with 64-bit integers (checked on the declarations of this tree)')
    res.explanation = ('Structural clauses of C02 (DESIGN.md 6.C02), decided on every path and loop iteration of every entry point: '
                       'R-BALANCE (counter, index, free/used partition and every auxiliary structure change by the same amount), '
                       'R-BOUND (interval argument: from 0 <= size <= capacity and the path tests, the counter stays in range after '
                       'every change; the eviction trigger is exactly size >= capacity), R-OBSERVERS (size/empty/capacity return the '
                       'counter / counter==0 / the size of storage that only the constructor sizes, with the capacity argument), '
                       'R-PURGE-FIRST / R-PURGE-SHAPE / ORD-WITNESS (ut_map/ut_set: complete purge before consulting the index), '
                       'R-CLOCK-IN-REGION (ut_map/ut_set: the clock sample that drives the purge and the deadlines is taken while m_lock is held, so '
                       'samples are ordered like the critical sections and the appended ttl list stays deadline-sorted under contention), '
                       'R-BIND-DOMINATED (an index insertion is dominated by a failed lookup of that key), R-CTOR-SHAPE. The step from these clauses to the '
                       'behavioural statement is the induction of DESIGN.md section 1 and is not machine-checked.')
    res.assumptions += ['capacity >= 1', 'representation invariant RI holds at entry (inductive hypothesis)']
    res.floors = {'R-BALANCE': 100, 'R-BOUND': 60, 'R-OBSERVERS': 28, 'R-PURGE-FIRST': 20, 'R-CLOCK-IN-REGION': 20, 'R-FULL-TEST': 14}
    return res


def c03(tier, repo):
    res = Result('C03', 'other')
    an = analysis(repo)
    rules_seq.rule_c03(an, res)
    rules_seq.rule_c02_c03_shared_full_test(an, res, 'C03')
    res.incomplete += [x for x in an.incomplete if an.relevant(x)]
    annotate(res, an)
    res.explanation = ('R-REMOVE-LICENSE (DESIGN.md 6.C03): every index removal on every path of every entry point is licensed by its '
                       'path valuation: erase(k) of the found entry; lookup of an expired entry (tlru/utlru); clean/purge guarded by the '
                       'removed node being expired; or exactly one policy victim, before the bind, on a new-key insert whose path '
                       'tested size >= capacity (fifo: head node holding a key), leaving the size unchanged. All other paths '
                       '(non-full inserts, updates, lookups, rejected inserts, absent erases, dynamically_age) contain no removal. Also: '
                       'R-FREED-SLOT-REUSABLE / R-SPLICE-DEST (a freed slot returns to the free side, so the next insert re-uses it instead of '
                       'evicting), R-PERM-FREED-IS-VICTIM (rr), R-ERASE-TRUTH (erase reports true exactly when it removed), keyed re-filing '
                       'where a removal guard reads the ttl key.')
    res.assumptions += ['which resident the policy names as victim is decided by C10-C16', 'RI at entry (inductive hypothesis)']
    res.floors = {'R-REMOVE-LICENSE': 60, 'R-ONE-VICTIM': 35}
    return res


def _simple(pid, fn, explanation, assumptions, floors):
    RULES[pid] = fn

    def run(tier, repo):
        res = Result(pid, LEVEL.get(pid, 'other'))
        an = analysis(repo)
        fn(an, res)
        res.incomplete += [x for x in an.incomplete if an.relevant(x)]
        annotate(res, an)
        res.explanation = explanation
        res.assumptions += assumptions
        res.floors = floors
        return res
    return run


c04 = _simple('C04', rules_ttl.rule_c04,
              'Structural clauses of C04 (DESIGN.md 6.C04): R-LIVE-GUARD (tlru/utlru: every lookup path that yields a value is dominated by '
              'the strict test now < expire_time of the found entry, with the call\'s own clock sample); ut_map/ut_set: R-PURGE-FIRST + '
              'R-PURGE-SHAPE (walk from the list head, inclusive test now >= deadline per node, stop at the first live node, erase exactly '
              'the visited prefix) + ORD-WITNESS (append/move-to-back only, deadline = own clock sample + a ttl no method changes) so that '
              '"not purged" implies live; R-REFILE-ON-UPDATE (every write re-files the entry under its new deadline). Not decided: the '
              'induction from these clauses to the behavioural statement.',
              ['steady_clock is monotone', 'RI at entry (inductive hypothesis)'],
              {'R-LIVE-GUARD': 14, 'R-PURGE-FIRST': 20, 'R-PURGE-SHAPE': 20, 'R-REFILE-ON-UPDATE': 20, 'ORD-WITNESS': 10})
c05 = _simple('C05', lambda an, res: (rules_ttl.rule_c05(an, res), rules_width.check(an, res, 'C05', ('duration',))),
              'Structural clauses of C05 (DESIGN.md 6.C05): R-DEADLINE-PROV (the term stored as deadline and used as ttl key is now + d with '
              'now the call\'s single clock sample and d the ttl in force: call parameter / element ttl for tlru, configured field otherwise), '
              'R-WRITE-RESTARTS-TTL (every UPDATE and BIND row writes the deadline of the written entry exactly once), '
              'R-WHO-WRITES-DEADLINE (no other operation touches a deadline), R-CFG-ONLY (update_ttl only stores the duration), '
              'R-REFILE-ON-UPDATE, R-WIDTH (no duration the code computes with has a representation narrower than the clock\'s). Early removal is excluded by C03\'s licence rule.',
              ['steady_clock is monotone', 'now + ttl does not overflow (excluded by the property)'],
              {'R-DEADLINE-PROV': 30, 'R-WRITE-RESTARTS-TTL': 30, 'R-CFG-ONLY': 1, 'R-TTL-USE': 200})
c16 = _simple('C16', rules_ttl.rule_c16,
              'C16 (DESIGN.md 6.C16): ORD-WITNESS (A): the ttl structure of tlru/utlru is a std::multimap keyed by time_point with the default '
              'ordering, every write files the slot under exactly the term stored as its deadline and refreshes the stored position '
              '(R-REFILE-ON-UPDATE), nothing else reorders it, so its head is the entry expiring first; R-PRUNE-TABLE: on every full '
              'new-key insert path the victim is the ttl head iff now >= deadline(head) (inclusive, own clock sample), else the LRU back.',
              ['std::multimap with std::less keeps begin() minimal ([associative.reqmts])', 'RI at entry'],
              {'R-PRUNE-TABLE': 8, 'ORD-WITNESS': 2, 'R-REFILE-ON-UPDATE': 10})
c17 = _simple('C17', rules_ttl.rule_c17,
              'C17 (DESIGN.md 6.C17): R-CLEAN-LOOP (tlru/utlru: a loop that continues exactly when the cache is non-empty and the ttl head is '
              'expired (inclusive), removes exactly that head per iteration, and can only stop when empty or the head is live), ORD-WITNESS, '
              'R-CLEAN-TALLY (the returned value is the number of removals: a tally incremented once per removing iteration, or the size '
              'difference of the ttl structure read inside the critical section), and for ut_map/ut_set R-PURGE-FIRST / R-PURGE-SHAPE on every '
              'insert, erase, lookup and clean.',
              ['steady_clock is monotone', 'RI at entry'],
              {'R-CLEAN-LOOP': 2, 'R-CLEAN-TALLY': 3, 'R-PURGE-SHAPE': 20, 'ORD-WITNESS': 10})

c10 = _simple('C10', lambda an, res: rules_pos.rule_order(an, res, 'C10', ['lru_cache', 'tlru_cache', 'utlru_cache']),
              'C10 (DESIGN.md 6.C10): list-position postconditions on every path of insert/find/erase (single and range forms) of lru, tlru, utlru: '
              'R-USE-POS (an update or non-peek live hit ends with the entry at the FRONT of the recency list; peek/miss/rejected paths move '
              'nothing), R-BIND-POS (a new entry ends at the FRONT), R-REMOVE-POS (a removed entry\'s node ends FIRST_FREE), R-VICTIM (the '
              'policy victim is back() of the list under size >= capacity, i.e. the last used node), R-WHO-MOVES, R-PARTITION-INTEGRITY. '
              'Paper step: move-to-front on use + remove-one keeps the used region ordered by last use, so its last node is the LRU entry.',
              ['[list.ops] splice semantics (stdmodel)', 'RI at entry', 'tlru/utlru: the expired-first victim is C16'],
              {'R-USE-POS': 40, 'R-BIND-POS': 10, 'R-REMOVE-POS': 10, 'R-VICTIM': 6})
c12 = _simple('C12', lambda an, res: rules_pos.rule_order(an, res, 'C12', ['fifo_cache']),
              'C12 (DESIGN.md 6.C12): fifo node positions on every path: insert takes the head node to the BACK (evicting the key it holds iff it '
              'holds one), update and lookups move nothing, erase parks the freed node at the FRONT and unbinds it, so unbound nodes form the '
              'prefix the next inserts recycle and bound nodes stay in insertion order.',
              ['[list.ops] splice semantics', 'RI at entry (unbound nodes form a prefix)'],
              {'R-USE-POS': 10, 'R-BIND-POS': 3, 'R-REMOVE-POS': 3, 'R-VICTIM': 2, 'R-FIFO-UNBIND': 3})
c13 = _simple('C13', lambda an, res: rules_pos.rule_order(an, res, 'C13', ['mru_cache']),
              'C13 (DESIGN.md 6.C13): mru list positions on every path: an update or non-peek hit ends with the entry at LAST_USED (just before '
              'the partition), a new entry is claimed at the partition and so ends LAST_USED, the victim is back() under size >= capacity '
              '(= LAST_USED = most recently used), removed nodes end FIRST_FREE, nothing else moves.',
              ['[list.ops] splice semantics', 'RI at entry'],
              {'R-USE-POS': 8, 'R-BIND-POS': 3, 'R-REMOVE-POS': 2, 'R-VICTIM': 2})

c11 = _simple('C11', lambda an, res: rules_policy.rule_counts(an, res, 'C11'),
              'C11 (DESIGN.md 6.C11), lfu_cache and lfuda_cache: R-COUNT-ALG on every path (a new entry is filed with count 1; a use reads '
              'c = the entry\'s own stored count, erases that count entry, files c+1 for the same node and stores the new position, in that '
              'order; peek / miss / rejected paths leave the count structure alone; a removal deletes the entry\'s count entry), R-VICTIM-MIN '
              '(the victim is begin() of a multimap<size_t,...> with the default order), R-COUNT-REPORT (find_with_use_count returns the '
              'count after the access, or the stored count when peeking).',
              ['[associative.reqmts]: begin() of a less-ordered multimap is a minimum', 'RI at entry'],
              {'R-COUNT-ALG': 40, 'R-VICTIM-MIN': 4, 'R-COUNT-REPORT': 3})
c14 = _simple('C14', rules_policy.rule_c14,
              'C14 (DESIGN.md 6.C14), lfuda_cache: C11\'s count algebra; R-STAMP (every use / insert stamps the entry with the call\'s clock '
              'sample, nothing else does); R-USE-POS / R-BIND-POS (a stamped entry ends at the young end = LAST_USED of the age list, so the '
              'list stays ordered by stamp); R-AGE-LOOP (scan from the old end while the scan node is used and age + tick < now, strictly; '
              'each aged entry is re-filed once under (size_t)(count*ratio), re-stamped, spliced before the previously aged node - initially '
              'the partition - and the scan restarts; the loop can stop only at the partition or at a young entry); R-AGE-TALLY; '
              'R-AGE-BEFORE-VICTIM (a full insert ages first and evicts the minimum read afterwards). Declined: exactness of the float '
              'product for counts above 2^24.',
              ['steady_clock monotone', 'RI at entry (age list ordered by stamp)', 'float rounding of count*ratio not decided'],
              {'R-AGE-LOOP': 2, 'R-STAMP': 20, 'R-AGE-TALLY': 1, 'R-AGE-BEFORE-VICTIM': 2, 'R-USE-POS': 10})
c15 = _simple('C15', rules_policy.rule_c15,
              'C15 (DESIGN.md 6.C15), rr_cache: R-RNG-ENGINE (member mt19937 seeded from random_device), R-RNG-BOUNDS (on every evicting insert '
              'path exactly one draw from uniform_int_distribution<size_t>{0, size-1} on the member engine, under size >= capacity >= 1, the '
              'drawn position is mapped through the open list to the victim slot, one removal, before the bind), R-RNG-ONLY-ON-EVICT, '
              'R-PERM-BACKPTR (every open-list write is matched by a refresh of the moved element\'s stored position unless the position is '
              'freed). The statistical spread of mt19937 / uniform_int_distribution is trusted (libstdc++), not decided.',
              ['libstdc++ uniform_int_distribution covers [a,b] uniformly', 'RI at entry'],
              {'R-RNG-BOUNDS': 2, 'R-PERM-BACKPTR': 6, 'R-RNG-ENGINE': 1})

c20 = _simple('C20', rules_misc.rule_c20,
              'C20 (DESIGN.md 6.C20): R-RESET-COMPLETE: for every component of abstract state that some non-constructor method writes (counter, '
              'partition, key index, each auxiliary structure, slot-list order), clear() on its non-empty path re-establishes the constructed '
              'value (counter := 0, partition := head of the slot list, index/aux cleared; the slot list may be in any order because slots are '
              'interchangeable, but a re-numbering must cover the whole list); element fields of freed slots are covered by the dead-slot rule '
              '(C08 R-FREE-SLOT: never read before the next bind writes them); the configured TTL is kept, as the statement says; a mutable '
              'field without a reset rule is reported. On the empty path nothing may change.',
              ['RI at entry', 'slots are interchangeable: behaviour does not depend on which free slot an insert claims'],
              {'R-RESET-COMPLETE': 6, 'R-FREE-SLOT': 30})
c18 = _simple('C18', lambda an, res: (rules_misc.rule_c18(an, res), rules_width.check(an, res, 'C18', ('tally',))),
              'C18 (DESIGN.md 6.C18): sibling agreement. For every range method (insert_range, erase_range, find_range, find_range_fill, fifo\'s '
              'iterator-pair overloads) the set of canonical path summaries (valuation, abstract effects, yielded result; subject key/value/ttl '
              'abstracted, results renumbered) of its loop body equals that of the single-key sibling (R-SIB-BODY); results are delivered once '
              'per element paired with the element\'s own key, tallies change exactly on successes, no early exit (R-SIB-PLUMB); one clock '
              'sample outside the loop, same prefix (purge) as the single form (R-SIB-ONCE); fifo range overloads forward begin/end of the same '
              'range (R-SIB-FWD); the allow / peek parameters of a range form and of its single-key form default to the same enumerator '
              '(R-SIB-DEFAULTS); returned counts are accumulated in 64-bit integers (R-WIDTH). One critical section for the whole loop is C06.',
              ['ut_map/ut_set insert_range purges once before the loop: equal to per-call purging when uniform_ttl > 0 (observation O1)',
               'RI at entry of every iteration (loop invariant, by C01/C02 clauses)'],
              {'R-SIB-BODY': 40, 'R-SIB-PLUMB': 100, 'R-SIB-ONCE': 40, 'R-SIB-PREFIX': 30, 'R-SIB-DEFAULTS': 12})
c01 = _simple('C01', lambda an, res: (rules_misc.rule_c01(an, res), rules_width.check(an, res, 'C01', ('field',))),
              'C01 (DESIGN.md 6.C01): key<->slot binding discipline on every path of every entry point: R-LOOKUP-PROV (the index is consulted '
              'with the call\'s own key / range element, a hit yields exactly the value field of the slot the index names for that key, a miss '
              'yields nothing), R-BIND-COHERENT (index entry for the call\'s key names the claimed slot, the call\'s value goes into that slot, '
              'every back-pointer of the slot is written once with the matching producer; updates write the found slot), R-KIND (every slot a '
              'path touches is named by a sanctioned producer: no raw random number, stale or caller value used as slot), R-PERM-BACKPTR (rr), '
              'R-PARTITION-INTEGRITY (no bound slot is left on the free side of the partition, none is bound twice), R-NO-REHASH, R-WIDTH (slot indices, '
              'counters and use counts are declared 64 bits wide: no two keys can share a slot by wrap-around).',
              ['RI at entry', 'paper induction: BIND/UPDATE are the only writers of values, lookups read the slot the index names'],
              {'R-LOOKUP-PROV': 100, 'R-BIND-COHERENT': 40, 'R-KIND': 200, 'R-NO-REHASH': 8})
c08 = _simple('C08', rules_misc.rule_c08,
              'C08 (DESIGN.md 6.C08): R-ITER-TS (no use of an iterator after the erase that invalidated it, nor of an index iterator obtained '
              'before a loop that erases from that container), R-FREE-SLOT (stored iterators are read only from slots known bound), '
              'R-CLAIM-DOMINATED (list-position domain: the partition is advanced only when a free node is known to exist, moved back only over '
              'a bound node, no bound node left on the free side, splice forms), R-NONEMPTY-DEREF, R-NO-REHASH, R-KIND, R-PERM-BACKPTR, '
              'R-RAII-ONLY (no manual memory management in the headers: storage is owned by std containers, so destruction is exactly-once '
              'once UB is excluded), L5 (no re-lock of the non-recursive mutex).',
              ['UB inside user key/value operations and overflow of now+ttl are outside the property', 'RI at entry'],
              {'R-ITER-TS': 100, 'R-FREE-SLOT': 100, 'R-RAII-ONLY': 10, 'R-CLAIM-DOMINATED': 60})

RULES['C09'] = rules_seq.rule_c09
RULES['C19'] = rules_seq.rule_noninterference
RULES['C02'] = lambda an, res: (rules_seq.rule_c02(an, res), rules_seq.rule_c02_c03_shared_full_test(an, res, 'C02'),
                                rules_width.check(an, res, 'C02', ('field',)))
RULES['C03'] = lambda an, res: (rules_seq.rule_c03(an, res), rules_seq.rule_c02_c03_shared_full_test(an, res, 'C03'))

CHECKS = {'C01': c01, 'C08': c08, 'C18': c18, 'C20': c20, 'C11': c11, 'C14': c14, 'C15': c15, 'C10': c10, 'C12': c12, 'C13': c13, 'C04': c04, 'C05': c05, 'C16': c16, 'C17': c17, 'C02': c02, 'C03': c03, 'C06': c06, 'C07': c07, 'C09': c09, 'C19': c19}


ALT_INSTANCES = [dict(ts='no'), dict(ts='yes', K='std::string', V='unsigned long', alt=True), dict(ts='no', K='std::string', V='std::string'),
                 dict(ts='yes', K='unsigned long', V='capcheck_driver::awkward_value')]
RULE_FN = {}


AWKWARD = dict(ts='yes', K='std::string', V='capcheck_driver::awkward_value')


def type_dispatch(repo):
    """does the library select code by properties of the key / value type (if constexpr, type traits, enable_if, overloads on
    trivially-/nothrow-...)?  Then a single instantiation does not speak for every value type."""
    import re
    inc = os.path.join(repo, 'inc', 'cappuccino')
    pat = re.compile(r'std::is_\w+|\w_v\s*<|enable_if|std::conditional|^\s*requires\b|if\s+constexpr\s*\((?![^)]*thread_safe)', re.M)
    try:
        for f in sorted(os.listdir(inc)):
            if not f.endswith('.hpp'):
                continue
            src = open(os.path.join(inc, f), errors='replace').read()
            src = re.sub(r'//[^\n]*|/\*.*?\*/', '', src, flags=re.S)      # comments do not dispatch
            if pat.search(src):
                return True
    except OSError:
        pass
    return False


def ts_dispatch(repo):
    """does the library select code by the thread_safe parameter anywhere but in the lock wrapper (if constexpr on it, comparisons
    with thread_safe::no/yes, conditional types)?  Then the unsynchronised instantiation is different code and is analysed as well."""
    import re
    inc = os.path.join(repo, 'inc', 'cappuccino')
    pat = re.compile(r'if\s+constexpr\s*\([^)]*thread_safe|thread_safe_type\s*[=!]=|[=!]=\s*thread_safe(_type|::)|conditional(_t)?\s*<[^;]*thread_safe|'
                     r'is_same(_v)?\s*<[^;]*thread_safe')
    try:
        for f in sorted(os.listdir(inc)):
            if not f.endswith('.hpp') or f == 'lock.hpp':
                continue
            src = open(os.path.join(inc, f), errors='replace').read()
            src = re.sub(r'//[^\n]*|/\*.*?\*/', '', src, flags=re.S)
            if pat.search(src):
                return True
    except OSError:
        pass
    return False


def merge_instance(pid, res, repo, kw):
    from report import Result
    try:
        an = analysis(repo, **kw)
    except Exception as e:      # front-end failure on an alternative instantiation
        res.incomplete.append('alternative instantiation %r: %s' % (kw, str(e)[:300]))
        return 0
    fn = RULES.get(pid)
    if fn is None:
        return 0
    sub = Result(pid, res.level)
    fn(an, sub)
    res.obligations += sub.obligations
    res.discharged += sub.discharged
    for k, v in sub.rules.items():
        r = res.rules.setdefault(k, [0, 0])
        r[0] += v[0]
        r[1] += v[1]
    for v in sub.violations:
        v.message += ' [instantiation %s]' % ','.join('%s=%s' % kv for kv in sorted(kw.items()))
        res.violate(v)
    res.incomplete += [x for x in an.incomplete if x not in res.incomplete and an.relevant(x)]
    return 1


def run(pid, tier, repo, replay=None):
    res = CHECKS[pid](tier, repo)
    if tier != 'thorough' and pid not in ('C06', 'C07') and type_dispatch(repo):
        # code selected by traits of the value type: also analyse a value type with throwing, non-trivial copy / move operations
        if merge_instance(pid, res, repo, AWKWARD):
            res.counts['type_dispatch_instantiation'] = 1
    if tier != 'thorough' and ts_dispatch(repo):
        if merge_instance(pid, res, repo, dict(ts='no')):
            res.counts['thread_safe_no_instantiation'] = 1
    if tier == 'thorough':
        thorough_extras(pid, res, repo)
    suppress_on_unknown(res)
    return res


def suppress_on_unknown(res):
    """a public method whose paths contain a construct the engine has no semantics for cannot be judged either way: what the rules
    say about it is withheld (it stays in the evidence as analysis-incomplete), the verdict for the property is exit 2, not exit 1"""
    import re
    unk = set()
    for line in res.incomplete:
        if 'G-UNKNOWN' not in line:
            continue
        for cls, meth in re.findall(r'reached from (\w+)::([^;]+?)(?=;|$)', line):
            unk.add((cls, meth.strip()))
    if not unk:
        return
    keep = []
    for v in res.violations:
        fn = (v.function or '').split(' [')[0].strip()
        if (v.container, fn) in unk:
            res.incomplete.append('withheld (method uses an unmodelled construct): %s' % v.line()[:200])
        else:
            keep.append(v)
    res.violations[:] = keep



def _selftest_one(args):
    """one seeded patch applied to a scratch copy of the tree, judged by the quick tier of one check (runs in a worker process)"""
    import shutil
    import subprocess
    import tempfile
    pid, repo, sid, patch = args
    tmp = tempfile.mkdtemp(prefix='capcheck-selftest-')
    try:
        shutil.copytree(os.path.join(repo, 'inc'), os.path.join(tmp, 'inc'))
        p = subprocess.run(['patch', '-s', '-p1', '-i', patch], cwd=tmp, capture_output=True, text=True)
        if p.returncode != 0:
            return sid, 'na'
        try:
            sub = run(pid, 'quick', tmp)
        except Exception as e:
            return sid, 'engine stopped: %s' % str(e)[:120]
        return sid, ('caught' if sub.violations else 'missed')
    finally:
        shutil.rmtree(tmp, ignore_errors=True)

def thorough_extras(pid, res, repo):
    """thorough tier: (1) the same rules on the other instantiations the build uses (thread_safe::no, other key/value types,
    map-typed ranges) - parametricity premise P-PARAM says verdicts must agree; (2) self-test: every seeded breaking change that this
    property's rules are recorded to catch (seeded/EXPECTED.json) must still be caught on a scratch copy of the current tree."""
    import shutil
    import subprocess
    import tempfile
    from report import Result
    base_v = len(res.violations)
    n_inst = 0
    if pid not in ('C06', 'C07'):
        for kw in ALT_INSTANCES:
            try:
                an = analysis(repo, **kw)
            except Exception as e:      # front-end failure on an alternative instantiation
                res.incomplete.append('alternative instantiation %r: %s' % (kw, str(e)[:300]))
                continue
            sub = Result(pid, res.level)
            fn = RULES.get(pid)
            if fn is None:
                break
            fn(an, sub)
            n_inst += 1
            res.obligations += sub.obligations
            res.discharged += sub.discharged
            for k, v in sub.rules.items():
                r = res.rules.setdefault(k, [0, 0])
                r[0] += v[0]
                r[1] += v[1]
            for v in sub.violations:
                v.message += ' [instantiation %s]' % ','.join('%s=%s' % kv for kv in sorted(kw.items()))
                res.violate(v)
            res.incomplete += [x for x in an.incomplete if x not in res.incomplete and an.relevant(x)]
    res.counts['alternative_instantiations'] = n_inst
    # ---- self-test against the seeded corpus
    exp_path = os.path.join(os.path.dirname(os.path.dirname(os.path.abspath(__file__))), 'seeded', 'EXPECTED.json')
    caught = missed = 0
    if os.path.exists(exp_path):
        exp = json.load(open(exp_path))
        seeded_dir = os.path.dirname(exp_path)
        todo = [(pid, repo, sid, os.path.join(seeded_dir, sid, 'patch.diff')) for sid, props in sorted(exp.items()) if pid in props]
        from concurrent.futures import ProcessPoolExecutor
        workers = max(1, min(16, (os.cpu_count() or 2), len(todo)))
        if todo:
            with ProcessPoolExecutor(max_workers=workers) as ex:
                for sid, verdict in ex.map(_selftest_one, todo, chunksize=1):
                    if verdict == 'na':
                        res.counts['selftest_patch_not_applicable'] = res.counts.get('selftest_patch_not_applicable', 0) + 1
                    elif verdict == 'caught':
                        caught += 1
                    else:
                        missed += 1
                        res.incomplete.append('SELF-TEST: seeded change %s is no longer reported by %s (the rule went blind)%s'
                                              % (sid, pid, '' if verdict == 'missed' else ' [%s]' % verdict))
    # ---- positive controls for rules that match nothing on a healthy tree (controls/<name>/{patch.diff, expect.json})
    ctl_dir = os.path.join(os.path.dirname(os.path.dirname(os.path.abspath(__file__))), 'controls')
    ctl_ok = 0
    if os.path.isdir(ctl_dir):
        for name in sorted(os.listdir(ctl_dir)):
            ej = os.path.join(ctl_dir, name, 'expect.json')
            if not os.path.exists(ej):
                continue
            want = [e for e in json.load(open(ej))['expect'] if e['property'] == pid]
            if not want:
                continue
            tmp = tempfile.mkdtemp(prefix='capcheck-control-')
            try:
                shutil.copytree(os.path.join(repo, 'inc'), os.path.join(tmp, 'inc'))
                p = subprocess.run(['patch', '-s', '-p1', '-i', os.path.join(ctl_dir, name, 'patch.diff')], cwd=tmp, capture_output=True, text=True)
                if p.returncode != 0:
                    res.counts['control_patch_not_applicable'] = res.counts.get('control_patch_not_applicable', 0) + 1
                    continue
                sub = run(pid, 'quick', tmp)
                rules_hit = set(v.rule for v in sub.violations)
                for e in want:
                    if e['rule'] in rules_hit:
                        ctl_ok += 1
                    else:
                        res.incomplete.append('SELF-TEST: positive control %s no longer triggers %s of %s' % (name, e['rule'], pid))
            finally:
                for k in [k for k in _AN if k[0] == tmp]:
                    _AN.pop(k, None)
                shutil.rmtree(tmp, ignore_errors=True)
    res.counts['positive_controls_triggered'] = ctl_ok
    res.counts['selftest_seeded_caught'] = caught
    res.counts['selftest_seeded_missed'] = missed
    res.ob('SELF-TEST', ok=True, n=caught)
    res.explanation += (' THOROUGH: the same rules were also run on %d further instantiations (thread_safe::no, std::string keys, '
                        'uint64 values, map-typed ranges) and %d seeded breaking changes recorded for this property were re-applied to a '
                        'scratch copy of the current tree and had to be reported.' % (n_inst, caught))
