"""Property -> rules dispatch."""
import json
import os

import locks
import rules_seq
import rules_ttl
from analysis import Analysis
from report import Result

LEVEL = {'C04': 'other', 'C05': 'other', 'C16': 'other', 'C17': 'other', 'C02': 'other', 'C03': 'other', 'C06': 'proof', 'C07': 'proof', 'C09': 'proof', 'C19': 'proof'}
_AN = {}


def analysis(repo, ts='yes', **kw):
    k = (repo, ts, tuple(sorted(kw.items())))
    if k not in _AN:
        _AN[k] = Analysis(repo, ts=ts, **kw)
    return _AN[k]


def c06(tier, repo):
    res = Result('C06', 'proof')
    an = analysis(repo)
    locks.analyse(an, res, None)
    res.incomplete += an.incomplete
    res.explanation = ('Reduction (DESIGN.md 6.C06): every public method of every thread_safe::yes container performs all accesses '
                       'to mutable container state inside one critical section of this->m_lock (L1), the section is never re-taken '
                       'or taken per loop iteration, returns values only (L3), the wrapper reaches std::mutex (L4), no re-acquisition (L5). '
                       'All control-flow paths of all public methods with helpers inlined were enumerated.')
    res.assumptions += ['a single critical section per call of one common mutex implies linearizability in lock-acquisition order '
                        '(pen-and-paper reduction, DESIGN.md 6.C06)',
                        'clock samples taken before the lock are outside the property (its own exclusion)',
                        'constructors/destructors are not concurrent with other calls']
    res.floors = {'L1-ONE-REGION': 100, 'L3-NO-ESCAPE': 100}
    return res


def c07(tier, repo):
    res = Result('C07', 'proof')
    an = analysis(repo)
    locks.analyse(an, None, res)
    res.incomplete += an.incomplete
    res.explanation = ('Lockset analysis (DESIGN.md 6.C07): for every access to a data member (or memory reached through it) on every '
                       'path of every public method, either the access is inside the critical section of this->m_lock or no '
                       'conflicting access exists in any public method; conflicts follow [res.on.data.races] / '
                       '[container.requirements.dataraces] (structure writes conflict with everything on that container, content '
                       'writes with content accesses).  Also evaluated pairwise per unordered pair of public methods.')
    res.assumptions += ['std-library access model of stdmodel.py (const member = read, non-const = structure write; element access via '
                        'operator[]/iterators counts as structure read)',
                        'constructors/destructors are not concurrent with other calls',
                        'user key/value operations do not touch the container']
    res.floors = {'LOCKSET': 1000, 'PAIR-RACE-FREE': 500}
    return res


def c09(tier, repo):
    res = Result('C09', 'proof')
    an = analysis(repo)
    rules_seq.rule_c09(an, res)
    res.incomplete += an.incomplete
    res.explanation = ('Finite decision table (DESIGN.md 6.C09): the allow enumerators and the insert_allowed/update_allowed bodies are '
                       'constant-evaluated from the AST for all three modes; every path of every insert / insert_range body (helpers '
                       'inlined) is classified by presence x update_allowed x insert_allowed x expired and its abstract effect class '
                       '(BIND / UPDATE / none) must equal the table row for every completion of the path valuation; rejected rows '
                       'must be effect-free; the returned bool / the range tally must change exactly on the rows that write.')
    res.assumptions += ['PRESENT in ut_map/ut_set means live because the purge runs first (decided under C02/C04/C17)',
                        'that the UPDATE/BIND effects store the right value and deadline is decided under C01/C05']
    res.floors = {'R-INSERT-TABLE': 80, 'R-REJECT-PURE': 40, 'R-TALLY': 40, 'R-ALLOW-ENC': 7}
    return res


def c19(tier, repo):
    res = Result('C19', 'proof')
    an = analysis(repo)
    rules_seq.rule_noninterference(an, res)
    res.incomplete += an.incomplete
    res.explanation = ('Write-freedom (DESIGN.md 6.C19): every path whose valuation is a peek hit, a miss, a rejected insert or an '
                       'absent-key erase has an empty abstract effect list on container state (so the state is bit-identical and every '
                       'continuation unchanged); in tlru/utlru the only permitted effects on a lookup of an expired key are the removal '
                       'of that very entry; in ut_map/ut_set only the expired-prefix purge.')
    res.assumptions += ['std-library purity classification of stdmodel.py (find/begin/end/size/back are reads)',
                        'copying a value out (optional<V>{e.m_value}) does not modify the stored value']
    res.floors = {'R-PURE-NOOP': 60, 'R-REJECT-PURE': 40}
    return res


def c02(tier, repo):
    res = Result('C02', 'other')
    an = analysis(repo)
    rules_seq.rule_c02(an, res)
    rules_seq.rule_c02_c03_shared_full_test(an, res, 'C02')
    res.incomplete += an.incomplete
    res.explanation = ('Structural clauses of C02 (DESIGN.md 6.C02), decided on every path and loop iteration of every entry point: '
                       'R-BALANCE (counter, index, free/used partition and every auxiliary structure change by the same amount), '
                       'R-BOUND (interval argument: from 0 <= size <= capacity and the path tests, the counter stays in range after '
                       'every change; the eviction trigger is exactly size >= capacity), R-OBSERVERS (size/empty/capacity return the '
                       'counter / counter==0 / the size of storage that only the constructor sizes, with the capacity argument), '
                       'R-PURGE-FIRST (ut_map/ut_set purge before consulting the index). The step from these clauses to the '
                       'behavioural statement is the induction of DESIGN.md section 1 and is not machine-checked.')
    res.assumptions += ['capacity >= 1', 'representation invariant RI holds at entry (inductive hypothesis)']
    res.floors = {'R-BALANCE': 100, 'R-BOUND': 60, 'R-OBSERVERS': 28, 'R-PURGE-FIRST': 20, 'R-FULL-TEST': 14}
    return res


def c03(tier, repo):
    res = Result('C03', 'other')
    an = analysis(repo)
    rules_seq.rule_c03(an, res)
    rules_seq.rule_c02_c03_shared_full_test(an, res, 'C03')
    res.incomplete += an.incomplete
    res.explanation = ('R-REMOVE-LICENSE (DESIGN.md 6.C03): every index removal on every path of every entry point is licensed by its '
                       'path valuation: erase(k) of the found entry; lookup of an expired entry (tlru/utlru); clean/purge guarded by the '
                       'removed node being expired; or exactly one policy victim, before the bind, on a new-key insert whose path '
                       'tested size >= capacity (fifo: head node holding a key), leaving the size unchanged. All other paths '
                       '(non-full inserts, updates, lookups, rejected inserts, absent erases, dynamically_age) contain no removal.')
    res.assumptions += ['which resident the policy names as victim is decided by C10-C16', 'RI at entry (inductive hypothesis)']
    res.floors = {'R-REMOVE-LICENSE': 60, 'R-ONE-VICTIM': 35}
    return res


def _simple(pid, fn, explanation, assumptions, floors):
    def run(tier, repo):
        res = Result(pid, LEVEL.get(pid, 'other'))
        an = analysis(repo)
        fn(an, res)
        res.incomplete += an.incomplete
        res.explanation = explanation
        res.assumptions += assumptions
        res.floors = floors
        return res
    return run


c04 = _simple('C04', rules_ttl.rule_c04,
              'Structural clauses of C04 (DESIGN.md 6.C04): R-LIVE-GUARD (tlru/utlru: every lookup path that yields a value is dominated by '
              'the strict test now < expire_time of the found entry, with the call\'s own clock sample); ut_map/ut_set: R-PURGE-FIRST + '
              'R-PURGE-SHAPE (walk from the list head, inclusive test now >= deadline per node, stop at the first live node, erase exactly '
              'the visited prefix) + ORD-WITNESS (append/move-to-back only, deadline = own clock sample + a ttl no method changes) so that '
              '"not purged" implies live; R-REFILE-ON-UPDATE (every write re-files the entry under its new deadline). Not decided: the '
              'induction from these clauses to the behavioural statement.',
              ['steady_clock is monotone', 'RI at entry (inductive hypothesis)'],
              {'R-LIVE-GUARD': 20, 'R-PURGE-FIRST': 20, 'R-PURGE-SHAPE': 20, 'R-REFILE-ON-UPDATE': 20, 'ORD-WITNESS': 10})
c05 = _simple('C05', rules_ttl.rule_c05,
              'Structural clauses of C05 (DESIGN.md 6.C05): R-DEADLINE-PROV (the term stored as deadline and used as ttl key is now + d with '
              'now the call\'s single clock sample and d the ttl in force: call parameter / element ttl for tlru, configured field otherwise), '
              'R-WRITE-RESTARTS-TTL (every UPDATE and BIND row writes the deadline of the written entry exactly once), '
              'R-WHO-WRITES-DEADLINE (no other operation touches a deadline), R-CFG-ONLY (update_ttl only stores the duration), '
              'R-REFILE-ON-UPDATE. Early removal is excluded by C03\'s licence rule.',
              ['steady_clock is monotone', 'now + ttl does not overflow (excluded by the property)'],
              {'R-DEADLINE-PROV': 30, 'R-WRITE-RESTARTS-TTL': 30, 'R-CFG-ONLY': 1})
c16 = _simple('C16', rules_ttl.rule_c16,
              'C16 (DESIGN.md 6.C16): ORD-WITNESS (A): the ttl structure of tlru/utlru is a std::multimap keyed by time_point with the default '
              'ordering, every write files the slot under exactly the term stored as its deadline and refreshes the stored position '
              '(R-REFILE-ON-UPDATE), nothing else reorders it, so its head is the entry expiring first; R-PRUNE-TABLE: on every full '
              'new-key insert path the victim is the ttl head iff now >= deadline(head) (inclusive, own clock sample), else the LRU back.',
              ['std::multimap with std::less keeps begin() minimal ([associative.reqmts])', 'RI at entry'],
              {'R-PRUNE-TABLE': 12, 'ORD-WITNESS': 2, 'R-REFILE-ON-UPDATE': 10})
c17 = _simple('C17', rules_ttl.rule_c17,
              'C17 (DESIGN.md 6.C17): R-CLEAN-LOOP (tlru/utlru: a loop that continues exactly when the cache is non-empty and the ttl head is '
              'expired (inclusive), removes exactly that head per iteration, and can only stop when empty or the head is live), ORD-WITNESS, '
              'R-CLEAN-TALLY (the returned value is the number of removals: a tally incremented once per removing iteration, or the size '
              'difference of the ttl structure read inside the critical section), and for ut_map/ut_set R-PURGE-FIRST / R-PURGE-SHAPE on every '
              'insert, erase, lookup and clean.',
              ['steady_clock is monotone', 'RI at entry'],
              {'R-CLEAN-LOOP': 2, 'R-CLEAN-TALLY': 4, 'R-PURGE-SHAPE': 20, 'ORD-WITNESS': 10})

CHECKS = {'C04': c04, 'C05': c05, 'C16': c16, 'C17': c17, 'C02': c02, 'C03': c03, 'C06': c06, 'C07': c07, 'C09': c09, 'C19': c19}


def run(pid, tier, repo, replay=None):
    return CHECKS[pid](tier, repo)
