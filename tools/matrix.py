#!/usr/bin/env python3
"""Runs every registered check against every patch of a corpus (seeded/ or neutral/), each on a scratch copy of /repo/inc.
One process per patch (all checks share one AST dump), patches in parallel.
usage: matrix.py <corpus-dir>... [-v]     prints '<id>: <props that report a violation> (<prop>:incomplete)'"""
import os
import shutil
import subprocess
import sys
import tempfile
from concurrent.futures import ProcessPoolExecutor

VERIF = os.path.dirname(os.path.dirname(os.path.abspath(__file__)))
sys.path.insert(0, os.path.join(VERIF, 'capcheck'))


def one(d):
    import io
    import contextlib
    patch = os.path.join(d, 'patch.diff')
    name = os.path.basename(os.path.normpath(d))
    tmp = tempfile.mkdtemp(prefix='capmatrix-')
    try:
        shutil.copytree('/repo/inc', os.path.join(tmp, 'inc'))
        p = subprocess.run(['patch', '-s', '-p1', '-i', os.path.abspath(patch)], cwd=tmp, capture_output=True, text=True)
        if p.returncode != 0:
            return name, 'PATCH-FAILED', []
        import properties
        import frontend
        out, details = [], []
        for pid in sorted(properties.CHECKS):
            try:
                res = properties.run(pid, 'quick', tmp)
            except frontend.AnalysisIncomplete as e:
                out.append('(%s:incomplete)' % pid)
                details.append((pid, 'INCOMPLETE', str(e)[:300]))
                continue
            except Exception as e:
                out.append('(%s:crash)' % pid)
                import traceback
                details.append((pid, 'CRASH', traceback.format_exc()[-600:]))
                continue
            for rule, floor in res.floors.items():
                if res.rules.get(rule, [0, 0])[0] < floor:
                    res.incomplete.append('floor %s %d < %d' % (rule, res.rules.get(rule, [0, 0])[0], floor))
            if res.violations:
                out.append(pid)
                for v in res.violations[:3]:
                    details.append((pid, 'VIOLATION', v.line()[:400]))
            elif res.incomplete:
                out.append('(%s:incomplete)' % pid)
                details.append((pid, 'INCOMPLETE', '; '.join(res.incomplete[:2])[:400]))
        return name, ' '.join(out), details
    finally:
        shutil.rmtree(tmp, ignore_errors=True)


def main():
    args = [a for a in sys.argv[1:] if not a.startswith('-')]
    verbose = '-v' in sys.argv
    dirs = []
    for a in args:
        if os.path.exists(os.path.join(a, 'patch.diff')):
            dirs.append(a)
        else:
            dirs += sorted(os.path.join(a, x) for x in os.listdir(a) if os.path.exists(os.path.join(a, x, 'patch.diff')))
    with ProcessPoolExecutor(max_workers=14) as ex:
        for name, line, details in ex.map(one, dirs):
            print('%s: %s' % (name, line), flush=True)
            if verbose:
                for pid, kind, msg in details:
                    print('    %s %s %s' % (pid, kind, msg))


if __name__ == '__main__':
    main()
