"""usage: compare_matrix.py <output of `tools/matrix.py neutral seeded controls`>: what changed against seeded/EXPECTED.json,
which neutral patches alarm or newly end exit 2 (the known exit-2 list is the table of neutral/README.md)"""
import json,re,os,sys
exp = json.load(open('/verif/seeded/EXPECTED.json'))
cur = {}
for l in open(sys.argv[1]):
    if l.startswith(' ') or ':' not in l: continue
    sid, rest = l.split(':',1)
    cur[sid.strip()] = rest.split()
neutral = set(os.listdir('/verif/neutral'))
known2 = set("UA3 UC2 WC1 WC3 WD2 XB2 XC1 XC2 XD1 XD3 YB3 YD2 ZD1 AA3 AB3 AC3 BA3 BB2 BC2 BD2 DB2 DC2 DD2 EC1 ED2 IB1".split()) | set('U6-1 U6-3 U6-6 U8-4 U8-5 PC1 PD2 QA1 QC1 QC3 QD2 QE4 QF3 RA4 RE2 RE4 RD2 RF2 RF4'.split())
lost=[]; gained=[]
for sid, props in sorted(exp.items()):
    if sid not in cur: print('MISSING', sid); continue
    c = [p for p in cur[sid] if not p.startswith('(')]
    own = sid.split('-')[0]
    if props and not c: lost.append((sid, props))
    elif own in props and own not in c: print('OWN-LOST', sid, props, c)
    if set(c) - set(props): gained.append((sid, sorted(set(c)-set(props))))
print('LOST all detection:', lost)
print('gained:', len(gained), gained[:30])
for n in sorted(neutral):
    if n in cur and cur[n]:
        al = [p for p in cur[n] if not p.startswith('(')]
        if al: print('NEUTRAL-ALARM', n, al)
        elif n not in known2: print('NEUTRAL-EXIT2-NEW', n, ' '.join(cur[n])[:100])
for n in known2:
    if n in cur and not cur[n]: print('now silent:', n)
