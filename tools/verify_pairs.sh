#!/bin/bash
# usage: WT=/tmp/wtNN tools/verify_pairs.sh   (expects $WT/outs/<FAM>/{neutral,breaking,demo,meta}<i>.*; writes $WT/pairs_results.txt)
# verifies twin pairs: neutral (tests pass, demo exit 0), breaking (tests pass, demo non-zero), clean (demo exit 0)
V=${WT:-/tmp/wtX}/verify; RES=${WT:-/tmp/wtX}/pairs_results.txt
[ -d $V ] || git -C /repo worktree add -q --detach $V HEAD
cmake -G Ninja -S $V -B $V/_build -DCMAKE_BUILD_TYPE=Release >/dev/null 2>&1
for d in ${WT:-/tmp/wtX}/outs/*; do
  fam=$(basename $d)
  for i in 1 2 3; do
    [ -f $d/neutral$i.diff ] || continue
    tag=$fam$i
    grep -q "^$tag " $RES 2>/dev/null && continue
    flags=$(python3 -c "import json,re;m=json.load(open('$d/meta$i.json'));b=m.get('demo_build','');print(' '.join(x.rstrip(':,;.)') for x in re.findall(r'-fsanitize=\S+|-O\d|-g\b',b)))" 2>/dev/null)
    git -C $V checkout -- . ; git -C $V clean -fdq inc
    if clang++ -std=gnu++17 -I$V/inc -pthread $flags $d/demo$i.cpp -o $V/demo_c 2>/dev/null; then
      timeout 300 $V/demo_c >/dev/null 2>&1; rc_clean=$?
    else rc_clean=NA; fi
    out="$tag clean=$rc_clean"
    for t in neutral breaking; do
      git -C $V checkout -- . ; git -C $V clean -fdq inc
      if ! git -C $V apply $d/$t$i.diff 2>/dev/null; then out="$out $t=NOAPPLY"; continue; fi
      if ! cmake --build $V/_build -j16 >$V/b.log 2>&1; then out="$out $t=BUILDFAIL"; continue; fi
      timeout 600 $V/_build/test/libcappuccino_tests >$V/t.log 2>&1; rt=$?
      if [ $rt -ne 0 ]; then sleep 5; timeout 600 $V/_build/test/libcappuccino_tests >$V/t.log 2>&1; rt=$?; fi
      clang++ -std=gnu++17 -I$V/inc -pthread $flags $d/demo$i.cpp -o $V/demo_x 2>/dev/null; timeout 300 $V/demo_x >/dev/null 2>&1; rd=$?
      out="$out $t:tests=$rt,demo=$rd"
    done
    echo "$out flags=[$flags]" >> $RES
  done
done
git -C $V checkout -- . ; git -C $V clean -fdq inc
echo DONE >> $RES
