#!/usr/bin/env python3
"""writes /verif/seeded/README.md: one row per confirmed seeded breaking change and the checks that report it"""
import json, os
V = os.path.dirname(os.path.dirname(os.path.abspath(__file__)))
exp = json.load(open(os.path.join(V, 'seeded', 'EXPECTED.json')))
rows = []
for sid in sorted(exp):
    m = json.load(open(os.path.join(V, 'seeded', sid, 'meta.json')))
    rows.append((sid, m.get('property'), (m.get('breaks') or '').replace('|', '/').replace('\n', ' ')[:230], ' '.join(exp[sid]) or '**none**'))
with open(os.path.join(V, 'seeded', 'README.md'), 'w') as f:
    f.write('# Seeded breaking changes\n\nEach directory holds `patch.diff` (applies to /repo HEAD), `demo.cpp` (exits 0 without the patch, non-zero with it) and '
            '`meta.json` (what it breaks, what it needs to manifest, what was run). All were written by independent sub-agents that saw only the '
            'property text and a scratch worktree, and were confirmed by `tools/verify_seeded.sh` (patch applies, the 167-test suite passes with '
            'it, the demo fails with it and passes without it).\n\n`python3 tools/matrix.py seeded` re-runs every check against every patch; '
            '`seeded/EXPECTED.json` freezes the result and the thorough tier of each check re-applies the patches recorded for it (self-test).\n\n')
    f.write('| id | written for | change | reported by |\n|---|---|---|---|\n')
    for r in rows:
        f.write('| %s | %s | %s | %s |\n' % r)
    n = sum(1 for r in rows if r[3] != '**none**')
    f.write('\n%d of %d seeded changes are reported by at least one check; %d by the check of the property they were written for.\n'
            % (n, len(rows), sum(1 for r in rows if r[1] in r[3].split())))
print('ok')
