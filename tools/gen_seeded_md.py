#!/usr/bin/env python3
"""writes /verif/seeded/README.md: one row per confirmed seeded breaking change and the checks that report it"""
import json, os
V = os.path.dirname(os.path.dirname(os.path.abspath(__file__)))
exp = json.load(open(os.path.join(V, 'seeded', 'EXPECTED.json')))
rows = []
for sid in sorted(exp):
    m = json.load(open(os.path.join(V, 'seeded', sid, 'meta.json')))
    rows.append((sid, m.get('property'), (m.get('breaks') or m.get('summary') or '').replace('|', '/').replace('\n', ' ')[:230], ' '.join(exp[sid]) or '**none**'))
with open(os.path.join(V, 'seeded', 'README.md'), 'w') as f:
    f.write('# Seeded breaking changes\n\nEach directory holds `patch.diff` (applies to /repo HEAD), `demo.cpp` (exits 0 without the patch, non-zero with it) and '
            '`meta.json` (what it breaks, what it needs to manifest, what was run). All were written by independent sub-agents that saw only the '
            'property text and a scratch worktree, and were confirmed by `tools/verify_seeded.sh` (patch applies, the 167-test suite passes with '
            'it, the demo fails with it and passes without it).\n\n`python3 tools/matrix.py seeded` re-runs every check against every patch; '
            '`seeded/EXPECTED.json` freezes the result and the thorough tier of each check re-applies the patches recorded for it (self-test).\n\n')
    f.write('| id | written for | change | reported by |\n|---|---|---|---|\n')
    for r in rows:
        f.write('| %s | %s | %s | %s |\n' % r)
    why = {
        'C14-20': 'NOT DECIDED: float versus double rounding of count * ratio (DESIGN.md section 0 / 13.6)',
        'C03-18': 'exit 2: std::prev(end(), m_used_size) - an iterator distance that is a run-time quantity',
        'C15-18': 'exit 2: the random engine moved into a function-local static / thread_local (the model\'s rng members are gone)',
        'C07-27': 'exit 2: as C15-18 (twin pair RF4)',
        'C03-19': 'exit 2: an expired entry erased and its key re-inserted within one operation (twin pair PD2)',
        'C11-19': 'exit 2: hinted multimap insertion with a computed hint (twin pair PC1)',
        'C11-20': 'exit 2: slots collected as pointers in a local container (twin pair QC1)',
        'C10-20': 'exit 2: slots collected as pointers in a local container (twin pair QA1)',
        'C14-22': 'exit 2: aging re-file skipped depending on the place among equal counts (twin pair QC3)',
        'C16-20': 'exit 2: ttl re-file skipped depending on the neighbouring key (twin pair QD2)',
        'C16-21': 'exit 2: the stored ttl iterator member removed (twin pair RD2)',
        'C06-22': 'exit 2: hand-written spinning acquire() helper (twin pair QF3)',
        'C06-28': 'exit 2: reader locks on a shared_mutex (twin pair RF2)',
        'C02-22': 'exit 2: mark-and-sweep erase_range over a vector<bool> (twin pair RA4)',
        'C08-20': 'exit 2: two-pass erase_range through a local vector of iterators (twin pair RE2)',
        'C09-21': 'exit 2: try_emplace + size() comparison + undo (twin pair RE4)',
        'C02-9': 'exit 2: two-phase erase through a local vector of iterators (same shape as the neutral twin RE2)',
        'C19-11': 'exit 2: as C02-9',
        'C08-10': 'exit 2: as C02-9 (ut_map)',
        'C08-24': 'exit 2: clear() added to fifo_cache with a hand-written loop over a run-time number of nodes (twin pair UA3)',
        'C07-48': 'exit 2: a spinning lock() helper built on try_lock() whose blocking fallback is missing - try_lock is not modelled (twin pair WC3)',
        'C06-37': 'exit 2: size() / empty() answered from an atomic mirror that is also published in the middle of an evicting insert - the publication discipline of such a mirror is not modelled (twin pair WD2)',
        'C01-32': 'exit 2: the mru partition iterator member removed, the partition recomputed from the counter (twin pair XB2)',
        'C16-28': 'exit 2: the utlru ttl multimap replaced by a sorted list (twin pair XC2)',
        'C11-24': 'exit 2: hinted multimap re-insertion with lower_bound as the hint, tie order among equal counts (twin pair XD2, as C11-22)',
        'C01-33': 'exit 2: fifo split into a used list and a free list, the optional back-pointer a plain iterator (twin pair XD3)',
        'C11-25': 'exit 2: node-handle re-insertion with equal_range(k).first as the hint, tie order among equal counts (twin pair YB3, as C11-22)',
        'C14-32': 'NOT DECIDED: as C14-20, float versus double product (twin pair ZB1)',
        'C05-28': 'exit 2: the uniform ttl kept as a raw int32 tick count instead of a duration (the int64 twin ends the same way: representation change, twin pair ZD1)',
        'C03-27': 'exit 2: the one-victim limit of the prune is a predicate lambda over a running count (`so_far <= 1`): a state-changing loop limited by a local count (twin pair BC2)',
        'C17-28': 'exit 2: the purge is a cursor object stepped by `while (sweep.step())` whose tally is bumped before the liveness test - state carried across iterations in a member of a helper object (twin pair BD2)',
        'C11-27': 'exit 2: node-handle re-insertion with lower_bound as the hint, tie order among equal counts (twin pair CB1, as C11-22)',
        'C16-31': 'exit 2: node-handle re-keying of the ttl multimap with the old successor as the hint, tie order among equal deadlines (twin pair CC1)',
        'C18-28': 'exit 2: functor call on the key-equality object of the index (m_keyed_elements.key_eq()(a, b)) in a duplicate-key shortcut of find_range (twin pair DB2)',
        'C16-32': 'exit 2: ttl re-file skipped for an unchanged deadline depending on the neighbouring key, tie order among equal deadlines (twin pair DC2)',
        'C17-29': 'exit 2: ttl nodes parked in a local std::list and spliced back (adoption from a local list is an unmodelled construct; twin pair DD2)',
        'C16-33': 'exit 2: ttl re-file skipped through a helper for an unchanged deadline depending on the neighbouring key, tie order among equal deadlines (twin pair EC1, as C16-32)',
        'C11-22': 'exit 2: hinted multimap re-insertion with lower_bound as the hint (tie order among equal counts; twin pair SC1)',
        'C14-26': 'NOT DECIDED: as C14-20, float versus double product (twin pair SC2)',
        'C08-23': 'NOT DECIDED (exit 0): a hand-written move constructor leaves the partition iterator dangling - constructors and special members are outside the per-operation analysis (twin pair TF1, DESIGN 13.4p)',
        'C18-23': 'NOT DECIDED (exit 0): an iterator-category trait lets single-pass ranges be measured (consumed) first - dispatch on type traits of the caller\'s iterator (twin pair TF4, DESIGN 13.4p)',
    }
    none = [r for r in rows if r[3] == '**none**']
    if none:
        f.write('\n## Not reported\n\nThese end ANALYSIS-INCOMPLETE (exit 2) on the checks concerned - the engine names the construct it has no semantics for - '
                'or, where marked NOT DECIDED, are outside what is decided (these exit 0).  For the twin pairs the behaviour-preserving twin ends the same way, which is why no verdict is given.\n\n')
        f.write('| id | why |\n|---|---|\n')
        for r in none:
            f.write('| %s | %s |\n' % (r[0], why.get(r[0], 'exit 2 (see `./check %s --repo <patched tree>`)' % r[1])))
    n = sum(1 for r in rows if r[3] != '**none**')
    f.write('\n%d of %d seeded changes are reported by at least one check; %d by the check of the property they were written for.\n'
            % (n, len(rows), sum(1 for r in rows if r[1] in r[3].split())))
print('ok')
