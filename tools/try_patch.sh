#!/bin/bash
# usage: try_patch.sh <patch.diff> <PROP> [PROP...]  -- runs the checks against a scratch copy of /repo/inc with the patch applied
p=$1; shift
S=$(mktemp -d /tmp/capscratch.XXXXXX)
cp -r /repo/inc $S/inc
if ! (cd $S && patch -s -p1 < $p); then echo "PATCH-FAILED $p"; rm -rf $S; exit 3; fi
cd /verif
for prop in "$@"; do
  out=$(CAPCHECK_NO_EVIDENCE=1 ./check $prop --repo $S 2>&1); rc=$?
  echo "== $prop exit=$rc"
  echo "$out" | grep -v "^VIOLATION" | grep -v "^PASS" | cut -c1-260 | head -${LINES_MAX:-6}
done
rm -rf $S
