#!/usr/bin/env python3
"""runs tools/matrix.sh and freezes which checks report which seeded change -> seeded/EXPECTED.json (used by the thorough self-test)"""
import json, os, subprocess, sys
out = subprocess.run(["python3", "tools/matrix.py", "seeded"], cwd="/verif", capture_output=True, text=True).stdout
exp = {}
for l in out.splitlines():
    if ':' not in l: continue
    sid, rest = l.split(':', 1)
    props = [p for p in rest.split() if p.startswith('C') and '(' not in p]
    exp[sid.strip()] = props
    print(l)
json.dump(exp, open('/verif/seeded/EXPECTED.json', 'w'), indent=1, sort_keys=True)
missing = [k for k, v in exp.items() if not v]
print('undetected:', missing)
