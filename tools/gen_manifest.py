#!/usr/bin/env python3
"""Regenerates /verif/MANIFEST.json from the table below (kept as code so it never drifts)."""
import json
import os
import subprocess
import sys

HERE = os.path.dirname(os.path.abspath(__file__))
VERIF = os.path.dirname(HERE)
sys.path.insert(0, os.path.join(VERIF, 'capcheck'))

CLAIMS = {
    'C06': dict(
        level='proof',
        text='Reduction proof: every public method of every thread_safe::yes container performs all its accesses to mutable '
             'state inside ONE critical section of the container mutex (never re-taken, never per loop iteration), returns '
             'values only, and the lock wrapper reaches std::mutex. All paths of all public methods (helpers inlined) are '
             'enumerated from the type-checked AST; a single critical section per call implies linearizability in '
             'lock-acquisition order and makes each range call one atomic step. The sequential semantics it linearizes to are '
             'the subject of the other properties.',
        note='Trusted: clang front end, the std access model (stdmodel.py), the pen-and-paper reduction in DESIGN.md 6.C06. '
             'Pre-lock clock samples are excluded by the property itself. Does not decide the sequential behaviour.',
        technique='lock-region (critical-section) analysis over all AST paths: one-region rule, no state access outside it, '
                  'no per-iteration locking, value-only returns',
        design='6.C06'),
    'C07': dict(
        level='proof',
        text='Lockset proof: for every access to a data member (or memory reached through one) on every path of every public '
             'method, the access is inside the critical section of this->m_lock or no conflicting access exists in any public '
             'method; also evaluated per unordered pair of public methods. Conflicts follow [res.on.data.races].',
        note='Trusted: clang front end; std-library access classification in stdmodel.py; constructors/destructors not '
             'concurrent with other calls; user key/value operations do not touch the container.',
        technique='lockset / access-conflict analysis over all AST paths with helpers inlined',
        design='6.C07'),
    'C01': dict(
        level='other',
        text='Key<->slot binding discipline on every path of every entry point of all ten containers: R-LOOKUP-PROV (index consulted with '
             'the call\'s own key / range element; a hit yields exactly the value field of the slot the index names for that key; a miss '
             'yields nothing), R-BIND-COHERENT (the index entry for the key names the claimed slot, the value goes into that slot, every '
             'back-pointer is written once with the matching producer; updates write the found slot), R-KIND (no raw random number, stale or '
             'caller value used as a slot), R-PERM-BACKPTR (rr), R-PARTITION-INTEGRITY (list-position domain: no bound slot left on the free '
             'side, none bound twice), R-NO-REHASH. Structural necessary conditions; the induction to "latest value returned" is on paper.',
        note='Assumes RI at entry; trusted: clang AST, stdmodel.py, model.py.',
        technique='value-provenance and index-kind (dimension) analysis + list-position abstract domain over enumerated AST paths', design='6.C01'),
    'C08': dict(
        level='other',
        text='R-ITER-TS (iterator typestate: no use after the erase that invalidated it, nor of an iterator obtained before a loop that erases '
             'from that container), R-FREE-SLOT (stored iterators read only from slots known bound), R-CLAIM-DOMINATED (position domain: '
             'partition advanced only when a free node is known to exist), R-NONEMPTY-DEREF, R-NO-REHASH, R-KIND, R-PERM-BACKPTR, R-RAII-ONLY '
             '(no manual memory management, so destruction is exactly-once by the std containers once UB is excluded), L5 (no re-lock). '
             'Structural clauses; UB inside user types and overflow of now+ttl are outside the property.',
        note='Assumes RI at entry; std-library invalidation rules of stdmodel.py.',
        technique='iterator typestate + ownership (free-slot) + list-position abstract domain over enumerated AST paths; AST ban-list', design='6.C08'),
    'C10': dict(
        level='other',
        text='List-position postconditions on every path of insert/find/erase (single and range) of lru, tlru, utlru: a use ends with the entry '
             'at the FRONT, peek/miss/rejected paths move nothing, a new entry ends at the FRONT, a removed node ends FIRST_FREE, the policy '
             'victim is back() under size>=capacity (= last used node), nothing else moves, partition integrity; tlru/utlru also keyed '
             're-filing so the head-expired test reads true deadlines. Paper step: move-to-front + remove-one keeps the used region ordered '
             'by last use.',
        note='[list.ops] splice semantics as modelled in pos.py; RI at entry.',
        technique='list-position abstract domain (symbolic sequence with partition marker) over enumerated AST paths', design='6.C10'),
    'C11': dict(
        level='other',
        text='R-COUNT-ALG on every path of lfu/lfuda: new entry filed with count 1; a use reads the entry\'s own stored count c, erases that '
             'count entry, files c+1 for the same node and stores the new position (in that order); peek/miss/rejected paths leave counts '
             'alone; removal deletes the count entry. R-VICTIM-MIN: victim is begin() of a multimap<size_t,...> with default order. '
             'R-COUNT-REPORT: find_with_use_count returns the count after the access (stored count when peeking).',
        note='[associative.reqmts] begin() minimal; RI at entry.',
        technique='symbolic term algebra with store forwarding over enumerated AST paths', design='6.C11'),
    'C12': dict(
        level='other',
        text='fifo node positions on every path: insert takes the head node to the BACK (evicting the key it holds iff it holds one), update '
             'and lookups move nothing, erase parks the freed node at the FRONT unbound, so unbound nodes form the prefix inserts recycle and '
             'bound nodes stay in insertion order; single-node splice forms only.',
        note='[list.ops]; RI at entry (unbound nodes form a prefix).',
        technique='list-position abstract domain over enumerated AST paths', design='6.C10'),
    'C13': dict(
        level='other',
        text='mru list positions on every path: a use ends with the entry at LAST_USED (just before the partition), a new entry is claimed at '
             'the partition and so ends LAST_USED, the victim is back() under size>=capacity (= most recently used), removed nodes end '
             'FIRST_FREE, nothing else moves; rejected/peek/miss paths move nothing.',
        note='[list.ops]; RI at entry.',
        technique='list-position abstract domain over enumerated AST paths', design='6.C10'),
    'C14': dict(
        level='other',
        text='lfuda: C11 count algebra; R-STAMP (every use/insert stamps the entry with the call\'s clock sample, nothing else does); a '
             'stamped entry ends at the young end (LAST_USED) so the age list stays stamp-ordered; R-AGE-LOOP (scan from the old end while the '
             'scan node is used and age+tick<now strictly; aged entry re-filed once under (size_t)(count*ratio), re-stamped, spliced before '
             'the previously aged node, scan restarts; loop stops only at the partition or a young entry); R-AGE-TALLY; R-AGE-BEFORE-VICTIM. '
             'Declined: float rounding of count*ratio above 2^24.',
        note='steady_clock monotone; RI at entry.',
        technique='loop-shape analysis + list-position domain + linear normal form of time comparisons', design='6.C14'),
    'C15': dict(
        level='other',
        text='rr: member mt19937 seeded from random_device; on every evicting insert path exactly one draw from '
             'uniform_int_distribution<size_t>{0,size-1} on that engine under size>=capacity>=1, the drawn open-list position is mapped through '
             'the open list to the victim slot (index-kind check), one removal before the bind, so the victim is a prior resident and never a '
             'free slot or the new key; every open-list write refreshes the moved element\'s stored position. The statistical spread is '
             'libstdc++\'s and is not decided.',
        note='Trusted: libstdc++ uniform_int_distribution/mt19937.',
        technique='value-provenance + index-kind (dimension) analysis over enumerated AST paths', design='6.C15'),
    'C18': dict(
        level='other',
        text='Sibling agreement: for every range method the set of canonical path summaries (valuation, abstract effects, reported result; '
             'subject key/value/ttl abstracted) of its loop body equals that of the single-key sibling; results delivered once per element '
             'with the element\'s own key, tallies step exactly on successes, no early exit; one clock sample outside the loop; same purge '
             'prefix; fifo overloads forward begin/end of the same range. Atomicity of the whole loop is C06.',
        note='ut_map/ut_set insert_range purges once: equal to per-call purging when uniform_ttl>0 (O1). RI as loop invariant.',
        technique='sibling cross-check of canonicalised path summaries', design='6.C18'),
    'C20': dict(
        level='other',
        text='R-RESET-COMPLETE for utlru_cache::clear and ut_map::clear: every abstract state component with a non-constructor writer '
             '(counter, partition, index, each auxiliary structure, slot-list order) is re-established on the non-empty path; a slot-list '
             're-numbering must cover the whole list; the configured TTL is kept; a mutable field without a reset rule is reported; the '
             'empty path changes nothing. Element fields of freed slots are covered by C08\'s free-slot rule.',
        note='Slots are interchangeable (behaviour does not depend on which free slot is claimed); RI at entry.',
        technique='who-writes inventory vs. reset-effect completeness over AST paths', design='6.C20'),
    'C02': dict(
        level='other',
        text='Necessary-condition conformance, decided on every path and loop iteration of every entry point of all ten containers: '
             'R-BALANCE (element counter, index, free/used partition and each auxiliary structure change by the same amount), '
             'R-BOUND (interval argument from 0<=size<=capacity and the path tests: the counter stays in range after every change; '
             'the eviction trigger is exactly size>=capacity), R-OBSERVERS (size/empty/capacity return the counter / counter==0 / '
             'the size of storage only the constructor sizes, with the capacity argument), R-PURGE-FIRST (ut_map/ut_set). '
             'It decides these structural clauses, not the behaviour: the induction from them to the statement is on paper.',
        note='Assumes capacity>=1 and the representation invariant at entry (inductive hypothesis); trusted: clang AST, stdmodel.py, model.py.',
        technique='abstract-effect balance + interval (zone) analysis over enumerated AST paths', design='6.C02'),
    'C03': dict(
        level='other',
        text='R-REMOVE-LICENSE on every path of every entry point: each index removal is licensed by the path valuation (erase of the found '
             'key; lookup of an expired key; clean/purge guarded by the removed node being expired; exactly one policy victim, before the '
             'bind, on a new-key insert whose path tested size>=capacity, leaving the size unchanged); every other path has none. '
             'Decides the licence structure; which resident the policy names is C10-C16.',
        note='Assumes RI at entry; trusted: clang AST, stdmodel.py, model.py.',
        technique='abstract-effect licensing (who-may-remove) over enumerated AST paths', design='6.C03'),
    'C04': dict(
        level='other',
        text='R-LIVE-GUARD: every tlru/utlru lookup path that yields a value is dominated by the strict test now < expire_time of the found '
             'entry with the call\'s own clock sample (comparison normalised to a linear form, so < vs <= at the boundary is decided). '
             'ut_map/ut_set: purge-first, purge shape (from the head, inclusive test per node, stop at first live, erase the visited prefix) '
             'and the ORD witness (append / move-to-back only, deadline = own clock sample + ttl no method changes). Structural clauses only.',
        note='Assumes steady_clock monotone and RI at entry.',
        technique='dominating-guard analysis with linear normal form of time comparisons; loop-shape and ordering-witness checks', design='6.C04'),
    'C05': dict(
        level='other',
        text='R-DEADLINE-PROV (stored deadline and ttl key are now + d: now the single clock sample of the call, d the ttl in force - call '
             'parameter / element ttl for tlru, configured field otherwise), R-WRITE-RESTARTS-TTL (every UPDATE and BIND row writes the '
             'deadline of the written entry once), R-WHO-WRITES-DEADLINE, R-CFG-ONLY (update_ttl only stores the duration), keyed '
             're-filing consistent with the stored deadline. Structural clauses only; early removal is excluded by C03.',
        note='Assumes no overflow of now+ttl (excluded by the property).',
        technique='value-provenance (term inspection with store forwarding) and who-may-write analysis over AST paths', design='6.C05'),
    'C16': dict(
        level='other',
        text='ORD witness (A): the ttl structure is a std::multimap keyed by time_point with the default order, every write files the slot '
             'under exactly the term stored as its deadline and refreshes the stored position, nothing else reorders it; R-PRUNE-TABLE: on '
             'every full new-key insert path the victim is the ttl head iff now >= deadline(head) (inclusive, own clock sample), else the '
             'LRU back. Structural clauses only.',
        note='Trusted: [associative.reqmts] (begin() of a less-ordered multimap is minimal).',
        technique='ordering-witness (type + keyed-insertion discipline) and decision-table check over AST paths', design='6.C16'),
    'C17': dict(
        level='other',
        text='R-CLEAN-LOOP (a loop that continues exactly when non-empty and the ttl head is expired (inclusive), removes exactly that head, '
             'and can only stop when empty or the head is live), ORD witness, R-CLEAN-TALLY (returned value = number of removals), and for '
             'ut_map/ut_set purge-first / purge-shape on every insert, erase, lookup and clean. Structural clauses only.',
        note='Assumes steady_clock monotone, RI at entry.',
        technique='loop-shape analysis (guard, per-iteration effect, exit conditions) + ordering witness over AST paths', design='6.C17'),
    'C09': dict(
        level='proof',
        text='Finite decision table, decided exhaustively: the allow enumerators and insert_allowed/update_allowed are '
             'constant-evaluated from the AST for all three modes; every path of every insert / insert_range body (helpers '
             'inlined, all ten containers) is classified by presence x update_allowed x insert_allowed x expired and its '
             'abstract effect class (BIND / UPDATE / none) must equal the table row for every completion of the path '
             'valuation; rejected rows must be effect-free; the returned bool and the range tally must change exactly on the '
             'rows that write.',
        note='Decides which rows write and what is reported; that the written value/deadline are the right ones is C01/C05, '
             'and that PRESENT means live in ut_map/ut_set (purge first) is C02/C04/C17. Trusted: clang AST, stdmodel.py.',
        technique='exhaustive path enumeration + semantic-predicate classification against a finite decision table; AST constant evaluation',
        design='6.C09'),
    'C19': dict(
        level='proof',
        text='Write-freedom: every path whose valuation is a peek hit, a miss, a rejected insert or an absent-key erase has an '
             'empty abstract effect list on container state (bit-identical state => every continuation unchanged); tlru/utlru '
             'lookups of an expired key may only remove that very entry; ut_map/ut_set may only run the expired-prefix purge.',
        note='Trusted: clang AST; std-library purity table (stdmodel.py); copying a value out does not modify it.',
        technique='effect (write-set) analysis over all AST paths with helpers inlined',
        design='6.C19'),
}

NOT_YET = 'check not built yet in this session (static rule planned in DESIGN.md section 6); not claimed until it exists'


def main():
    props = [json.loads(l) for l in open(os.path.join(VERIF, 'properties.jsonl'))]
    try:
        import properties as P
        have = set(P.CHECKS)
    except Exception:
        have = set(CLAIMS)
    checks, na = [], []
    for p in props:
        pid = p['id']
        c = CLAIMS.get(pid)
        if c is None or pid not in have:
            na.append(dict(property_id=pid, reason=NA_REASONS.get(pid, NOT_YET)))
            continue
        checks.append(dict(
            property_id=pid,
            quick_cmd='./check %s --tier quick' % pid,
            thorough_cmd='./check %s --tier thorough' % pid,
            evidence_file='/verif/evidence/%s.json' % pid,
            replay_cmd_template='./check %s --replay {path}' % pid,
            engine='capcheck',
            level_claimed=dict(category=c['level'], text=c['text'], design_ref='DESIGN.md ' + c['design']),
            level_note=c['note'],
            technique=c['technique'],
        ))
    man = dict(
        version=1,
        setup_cmd='python3 -c "import sys; sys.path.insert(0, \'capcheck\'); import properties" && clang++ --version >/dev/null',
        hooks=dict(guard='CAPPUCCINO_VERIF', enable='none needed: capcheck reads the AST of the unmodified headers; the guard name is '
                                                     'reserved and no source commit uses it',
                   baseline_off_cmd='cmake -G Ninja -S /repo -B /repo/_build >/dev/null && cmake --build /repo/_build -j16 && '
                                    'ctest --test-dir /repo/_build -j8 --timeout 900',
                   source_commits=[], add_only=True),
        engines=[dict(name='capcheck', path='/verif/capcheck', serves_properties=[c['property_id'] for c in checks],
                      kind_free_text='repository-specific static analyzer (Python) over clang\'s type-checked JSON AST of an '
                                     'instantiation driver: path enumeration with store forwarding, lock regions / locksets, '
                                     'abstract effects vs. transition tables; no execution, no solver')],
        checks=checks,
        not_applicable=na,
        notes='Static analysis only. exit 0 pass / 1 VIOLATION / 2 ANALYSIS-INCOMPLETE. Known findings: /verif/known_findings.json '
              '(all recorded defects are fixed in /repo by fix: commits; no open findings). Seeded breaking changes used to '
              'validate the checks: /verif/seeded/.',
    )
    with open(os.path.join(VERIF, 'MANIFEST.json'), 'w') as fh:
        json.dump(man, fh, indent=1)
    print('MANIFEST.json: %d checks, %d not_applicable' % (len(checks), len(na)))


NA_REASONS = {}

if __name__ == '__main__':
    main()
