#!/usr/bin/env python3
"""Regenerates /verif/MANIFEST.json from the table below (kept as code so it never drifts)."""
import json
import os
import subprocess
import sys

HERE = os.path.dirname(os.path.abspath(__file__))
VERIF = os.path.dirname(HERE)
sys.path.insert(0, os.path.join(VERIF, 'capcheck'))

CLAIMS = {
    'C06': dict(
        level='proof',
        text='Reduction proof: every public method of every thread_safe::yes container performs all its accesses to mutable '
             'state inside ONE critical section of the container mutex (never re-taken, never per loop iteration), returns '
             'values only, and the lock wrapper reaches std::mutex. All paths of all public methods (helpers inlined) are '
             'enumerated from the type-checked AST; a single critical section per call implies linearizability in '
             'lock-acquisition order and makes each range call one atomic step. The sequential semantics it linearizes to are '
             'the subject of the other properties.',
        note='Trusted: clang front end, the std access model (stdmodel.py), the pen-and-paper reduction in DESIGN.md 6.C06. '
             'Pre-lock clock samples are excluded by the property itself. Does not decide the sequential behaviour.',
        technique='lock-region (critical-section) analysis over all AST paths: one-region rule, no state access outside it, '
                  'no per-iteration locking, value-only returns',
        design='6.C06'),
    'C07': dict(
        level='proof',
        text='Lockset proof: for every access to a data member (or memory reached through one) on every path of every public '
             'method, the access is inside the critical section of this->m_lock or no conflicting access exists in any public '
             'method; also evaluated per unordered pair of public methods. Conflicts follow [res.on.data.races].',
        note='Trusted: clang front end; std-library access classification in stdmodel.py; constructors/destructors not '
             'concurrent with other calls; user key/value operations do not touch the container.',
        technique='lockset / access-conflict analysis over all AST paths with helpers inlined',
        design='6.C07'),
    'C02': dict(
        level='other',
        text='Necessary-condition conformance, decided on every path and loop iteration of every entry point of all ten containers: '
             'R-BALANCE (element counter, index, free/used partition and each auxiliary structure change by the same amount), '
             'R-BOUND (interval argument from 0<=size<=capacity and the path tests: the counter stays in range after every change; '
             'the eviction trigger is exactly size>=capacity), R-OBSERVERS (size/empty/capacity return the counter / counter==0 / '
             'the size of storage only the constructor sizes, with the capacity argument), R-PURGE-FIRST (ut_map/ut_set). '
             'It decides these structural clauses, not the behaviour: the induction from them to the statement is on paper.',
        note='Assumes capacity>=1 and the representation invariant at entry (inductive hypothesis); trusted: clang AST, stdmodel.py, model.py.',
        technique='abstract-effect balance + interval (zone) analysis over enumerated AST paths', design='6.C02'),
    'C03': dict(
        level='other',
        text='R-REMOVE-LICENSE on every path of every entry point: each index removal is licensed by the path valuation (erase of the found '
             'key; lookup of an expired key; clean/purge guarded by the removed node being expired; exactly one policy victim, before the '
             'bind, on a new-key insert whose path tested size>=capacity, leaving the size unchanged); every other path has none. '
             'Decides the licence structure; which resident the policy names is C10-C16.',
        note='Assumes RI at entry; trusted: clang AST, stdmodel.py, model.py.',
        technique='abstract-effect licensing (who-may-remove) over enumerated AST paths', design='6.C03'),
    'C04': dict(
        level='other',
        text='R-LIVE-GUARD: every tlru/utlru lookup path that yields a value is dominated by the strict test now < expire_time of the found '
             'entry with the call\'s own clock sample (comparison normalised to a linear form, so < vs <= at the boundary is decided). '
             'ut_map/ut_set: purge-first, purge shape (from the head, inclusive test per node, stop at first live, erase the visited prefix) '
             'and the ORD witness (append / move-to-back only, deadline = own clock sample + ttl no method changes). Structural clauses only.',
        note='Assumes steady_clock monotone and RI at entry.',
        technique='dominating-guard analysis with linear normal form of time comparisons; loop-shape and ordering-witness checks', design='6.C04'),
    'C05': dict(
        level='other',
        text='R-DEADLINE-PROV (stored deadline and ttl key are now + d: now the single clock sample of the call, d the ttl in force - call '
             'parameter / element ttl for tlru, configured field otherwise), R-WRITE-RESTARTS-TTL (every UPDATE and BIND row writes the '
             'deadline of the written entry once), R-WHO-WRITES-DEADLINE, R-CFG-ONLY (update_ttl only stores the duration), keyed '
             're-filing consistent with the stored deadline. Structural clauses only; early removal is excluded by C03.',
        note='Assumes no overflow of now+ttl (excluded by the property).',
        technique='value-provenance (term inspection with store forwarding) and who-may-write analysis over AST paths', design='6.C05'),
    'C16': dict(
        level='other',
        text='ORD witness (A): the ttl structure is a std::multimap keyed by time_point with the default order, every write files the slot '
             'under exactly the term stored as its deadline and refreshes the stored position, nothing else reorders it; R-PRUNE-TABLE: on '
             'every full new-key insert path the victim is the ttl head iff now >= deadline(head) (inclusive, own clock sample), else the '
             'LRU back. Structural clauses only.',
        note='Trusted: [associative.reqmts] (begin() of a less-ordered multimap is minimal).',
        technique='ordering-witness (type + keyed-insertion discipline) and decision-table check over AST paths', design='6.C16'),
    'C17': dict(
        level='other',
        text='R-CLEAN-LOOP (a loop that continues exactly when non-empty and the ttl head is expired (inclusive), removes exactly that head, '
             'and can only stop when empty or the head is live), ORD witness, R-CLEAN-TALLY (returned value = number of removals), and for '
             'ut_map/ut_set purge-first / purge-shape on every insert, erase, lookup and clean. Structural clauses only.',
        note='Assumes steady_clock monotone, RI at entry.',
        technique='loop-shape analysis (guard, per-iteration effect, exit conditions) + ordering witness over AST paths', design='6.C17'),
    'C09': dict(
        level='proof',
        text='Finite decision table, decided exhaustively: the allow enumerators and insert_allowed/update_allowed are '
             'constant-evaluated from the AST for all three modes; every path of every insert / insert_range body (helpers '
             'inlined, all ten containers) is classified by presence x update_allowed x insert_allowed x expired and its '
             'abstract effect class (BIND / UPDATE / none) must equal the table row for every completion of the path '
             'valuation; rejected rows must be effect-free; the returned bool and the range tally must change exactly on the '
             'rows that write.',
        note='Decides which rows write and what is reported; that the written value/deadline are the right ones is C01/C05, '
             'and that PRESENT means live in ut_map/ut_set (purge first) is C02/C04/C17. Trusted: clang AST, stdmodel.py.',
        technique='exhaustive path enumeration + semantic-predicate classification against a finite decision table; AST constant evaluation',
        design='6.C09'),
    'C19': dict(
        level='proof',
        text='Write-freedom: every path whose valuation is a peek hit, a miss, a rejected insert or an absent-key erase has an '
             'empty abstract effect list on container state (bit-identical state => every continuation unchanged); tlru/utlru '
             'lookups of an expired key may only remove that very entry; ut_map/ut_set may only run the expired-prefix purge.',
        note='Trusted: clang AST; std-library purity table (stdmodel.py); copying a value out does not modify it.',
        technique='effect (write-set) analysis over all AST paths with helpers inlined',
        design='6.C19'),
}

NOT_YET = 'check not built yet in this session (static rule planned in DESIGN.md section 6); not claimed until it exists'


def main():
    props = [json.loads(l) for l in open(os.path.join(VERIF, 'properties.jsonl'))]
    try:
        import properties as P
        have = set(P.CHECKS)
    except Exception:
        have = set(CLAIMS)
    checks, na = [], []
    for p in props:
        pid = p['id']
        c = CLAIMS.get(pid)
        if c is None or pid not in have:
            na.append(dict(property_id=pid, reason=NA_REASONS.get(pid, NOT_YET)))
            continue
        checks.append(dict(
            property_id=pid,
            quick_cmd='./check %s --tier quick' % pid,
            thorough_cmd='./check %s --tier thorough' % pid,
            evidence_file='/verif/evidence/%s.json' % pid,
            replay_cmd_template='./check %s --replay {path}' % pid,
            engine='capcheck',
            level_claimed=dict(category=c['level'], text=c['text'], design_ref='DESIGN.md ' + c['design']),
            level_note=c['note'],
            technique=c['technique'],
        ))
    man = dict(
        version=1,
        setup_cmd='python3 -c "import sys; sys.path.insert(0, \'capcheck\'); import properties" && clang++ --version >/dev/null',
        hooks=dict(guard='CAPPUCCINO_VERIF', enable='none needed: capcheck reads the AST of the unmodified headers; the guard name is '
                                                     'reserved and no source commit uses it',
                   baseline_off_cmd='cmake -G Ninja -S /repo -B /repo/_build >/dev/null && cmake --build /repo/_build -j16 && '
                                    'ctest --test-dir /repo/_build -j8 --timeout 900',
                   source_commits=[], add_only=True),
        engines=[dict(name='capcheck', path='/verif/capcheck', serves_properties=[c['property_id'] for c in checks],
                      kind_free_text='repository-specific static analyzer (Python) over clang\'s type-checked JSON AST of an '
                                     'instantiation driver: path enumeration with store forwarding, lock regions / locksets, '
                                     'abstract effects vs. transition tables; no execution, no solver')],
        checks=checks,
        not_applicable=na,
        notes='Static analysis only. exit 0 pass / 1 VIOLATION / 2 ANALYSIS-INCOMPLETE. Known findings: /verif/known_findings.json '
              '(all recorded defects are fixed in /repo by fix: commits; no open findings). Seeded breaking changes used to '
              'validate the checks: /verif/seeded/.',
    )
    with open(os.path.join(VERIF, 'MANIFEST.json'), 'w') as fh:
        json.dump(man, fh, indent=1)
    print('MANIFEST.json: %d checks, %d not_applicable' % (len(checks), len(na)))


NA_REASONS = {}

if __name__ == '__main__':
    main()
