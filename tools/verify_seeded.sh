#!/bin/bash
# Confirms seeded mutations from /tmp/wt/C??/out: patch applies; test suite passes with it; demo fails with it and passes without.
# usage: verify_seeded.sh <outdir-list...>   results: /tmp/wt/verify/results.txt
set -u
V=${VERIFY_WT:-/tmp/wt/verify}
RES=${VERIFY_RES:-/tmp/wt/verify_results.txt}
OFF=${VERIFY_OFFSET:-0}
if [ ! -d $V ]; then git -C /repo worktree add -q --detach $V HEAD; fi
git -C $V checkout -q --detach $(git -C /repo rev-parse HEAD) 2>/dev/null
git -C $V checkout -- . 
cmake -G Ninja -S $V -B $V/_build -DCMAKE_BUILD_TYPE=Release >/dev/null 2>&1
for d in "$@"; do
  pid=$(basename $(dirname $d))
  for i in 1 2 3; do
    p=$d/patch$i.diff; [ -f $p ] || continue
    tag=$pid-$((i+OFF))
    grep -q "^$tag " $RES 2>/dev/null && continue
    flags=$(python3 -c "import json,re;m=json.load(open('$d/meta$i.json'));b=m.get('demo_build','');print(' '.join(re.findall(r'-fsanitize=\S+|-O\d|-g\b',b)))" 2>/dev/null)
    git -C $V checkout -- . 
    # demo without mutation
    clang++ -std=gnu++17 -I$V/inc -pthread $flags $d/demo$i.cpp -o $V/demo_clean 2>$V/verify_cc.log || { echo "$tag DEMO-COMPILE-FAIL-CLEAN" >> $RES; continue; }
    timeout 300 $V/demo_clean >/dev/null 2>&1; rc_clean=$?
    if ! git -C $V apply $p 2>/dev/null; then echo "$tag PATCH-DOES-NOT-APPLY" >> $RES; continue; fi
    if ! cmake --build $V/_build -j16 >$V/verify_build.log 2>&1; then echo "$tag BUILD-FAIL" >> $RES; git -C $V checkout -- .; continue; fi
    timeout 600 $V/_build/test/libcappuccino_tests >$V/verify_test.log 2>&1; rc_test=$?
    if [ $rc_test -ne 0 ]; then sleep 5; timeout 600 $V/_build/test/libcappuccino_tests >$V/verify_test.log 2>&1; rc_test=$?; fi
    clang++ -std=gnu++17 -I$V/inc -pthread $flags $d/demo$i.cpp -o $V/demo_mut 2>/dev/null || { echo "$tag DEMO-COMPILE-FAIL-MUT" >> $RES; git -C $V checkout -- .; continue; }
    timeout 300 $V/demo_mut >/dev/null 2>&1; rc_mut=$?
    git -C $V checkout -- .
    status=OK; [ $rc_clean -ne 0 ] && status=BAD-demo-fails-clean; [ $rc_test -ne 0 ] && status=BAD-tests-fail; [ $rc_mut -eq 0 ] && status=BAD-demo-passes-mutated
    echo "$tag $status clean=$rc_clean tests=$rc_test mut=$rc_mut flags=[$flags]" >> $RES
  done
done
echo DONE >> $RES
