#!/usr/bin/env python3
"""copies confirmed seeded mutations (verify_results.txt: OK) from /tmp/wt/Cxx/out into /verif/seeded/<id>/"""
import json, os, re, shutil, sys
res = {}
import os as _os
RESF=_os.environ.get('VERIFY_RES','/tmp/wt/verify_results.txt')
OFF=int(_os.environ.get('VERIFY_OFFSET','0'))
for l in open(RESF):
    p = l.split()
    if len(p) >= 2 and '-' in p[0]:
        res[p[0]] = l.strip()
for tag, line in sorted(res.items()):
    if ' OK ' not in line:
        print('skip', line); continue
    pid, i = tag.split('-')
    src = '/tmp/wt/%s/out' % pid
    if len(sys.argv) > 1: src = os.path.join(sys.argv[1], pid, 'out')
    dst = '/verif/seeded/%s' % tag
    os.makedirs(dst, exist_ok=True)
    j = str(int(i) - OFF)
    shutil.copy(os.path.join(src, 'patch%s.diff' % j), os.path.join(dst, 'patch.diff'))
    shutil.copy(os.path.join(src, 'demo%s.cpp' % j), os.path.join(dst, 'demo.cpp'))
    m = json.load(open(os.path.join(src, 'meta%s.json' % j)))
    flags = re.search(r'flags=\[(.*)\]', line).group(1)
    meta = dict(id=tag, property=m.get('property', pid), breaks=m.get('summary'), needs_to_manifest=m.get('needs'),
                files=m.get('files'), origin='independent sub-agent given only the property text and a scratch worktree',
                confirmed=dict(by='tools/verify_seeded.sh in a scratch worktree of /repo HEAD',
                               existing_test_suite_with_patch='pass (exit 0)', demo_without_patch='exit 0',
                               demo_with_patch='exit %s' % re.search(r'mut=(\d+)', line).group(1),
                               demo_build='clang++ -std=gnu++17 -I<worktree>/inc -pthread %s demo.cpp' % flags),
                agent_notes=m.get('verified'))
    json.dump(meta, open(os.path.join(dst, 'meta.json'), 'w'), indent=1)
    print('installed', tag)
