#!/bin/bash
# runs every registered check against every seeded patch (scratch copy of /repo/inc); prints a detection matrix
cd /verif
props=$(python3 -c "import sys;sys.path.insert(0,'capcheck');import properties;print(' '.join(sorted(properties.CHECKS)))")
for d in ${@:-seeded/*/}; do
  p=$d/patch.diff; [ -f $p ] || continue
  S=$(mktemp -d /tmp/capscratch.XXXXXX); cp -r /repo/inc $S/inc
  if ! (cd $S && patch -s -p1 < /verif/$p 2>/dev/null || patch -s -p1 < $p); then echo "$(basename $d): PATCH-FAILED"; rm -rf $S; continue; fi
  line="$(basename $d):"
  for prop in $props; do
    CAPCHECK_NO_EVIDENCE=1 ./check $prop --repo $S >/dev/null 2>&1; rc=$?
    [ $rc -eq 1 ] && line="$line $prop"; [ $rc -eq 2 ] && line="$line ($prop:incomplete)"
  done
  echo "$line"
  rm -rf $S
done
