#!/usr/bin/env python3
"""install verified twin pairs: usage install_pairs.py <outs-dir> <results-file> <mapping.json>
mapping: {"SA1": {"prop": "C01"}, "SC2": {"prop": "C14"}, "TB1": {"prop": null, "why": "..."}, "TD1": {"prop": "C04", "skip_neutral": "..."}}"""
import json, os, re, shutil, sys
outs, resf, mapf = sys.argv[1:4]
mp = json.load(open(mapf))
res = {}
for l in open(resf):
    p = l.split()
    if len(p) > 2:
        res[p[0]] = l.strip()
def next_n(prop):
    ns = [int(d.split('-')[1]) for d in os.listdir('/verif/seeded') if d.startswith(prop + '-') and d.split('-')[1].isdigit()]
    return max(ns or [0]) + 1
for tag in sorted(mp):
    info = mp[tag]
    line = res.get(tag, '')
    fam, i = tag[:2], tag[2:]
    src = os.path.join(outs, fam)
    m = json.load(open(os.path.join(src, 'meta%s.json' % i)))
    okn = 'neutral:tests=0,demo=0' in line
    mb = re.search(r'breaking:tests=0,demo=(\d+)', line)
    okb = mb is not None and mb.group(1) != '0'
    clean_ok = ' clean=0 ' in line or ' clean=NA ' in line
    sid = None
    if info.get('prop') and okb and clean_ok:
        prop = info['prop']
        sid = '%s-%d' % (prop, next_n(prop))
        dst = '/verif/seeded/' + sid
        os.makedirs(dst)
        shutil.copy(os.path.join(src, 'breaking%s.diff' % i), os.path.join(dst, 'patch.diff'))
        shutil.copy(os.path.join(src, 'demo%s.cpp' % i), os.path.join(dst, 'demo.cpp'))
        meta = dict(property=prop, summary='%s; breaking twin: %s' % (m['pair'], m['difference']), needs=m['what_breaking_violates'],
                    files=m['files'], demo_build=m['demo_build'],
                    verified='applied alone in a scratch worktree: test suite passes, demonstration exits non-zero (%s); %s' % (
                        mb.group(1), 'exits 0 on the unchanged tree and on the neutral twin' if ' clean=0 ' in line else
                        'the demonstration calls the function the pair adds, so it does not build on the unchanged tree; it exits 0 on the neutral twin'))
        if not info.get('skip_neutral') and okn:
            meta['neutral_twin'] = 'neutral/' + tag
        json.dump(meta, open(os.path.join(dst, 'meta.json'), 'w'), indent=1)
        print('seeded', tag, '->', sid)
    else:
        print('NO-SEEDED', tag, info.get('why') or line)
    if info.get('skip_neutral') or not okn:
        print('NO-NEUTRAL', tag, info.get('skip_neutral') or line)
        continue
    dst = '/verif/neutral/' + tag
    os.makedirs(dst, exist_ok=True)
    shutil.copy(os.path.join(src, 'neutral%s.diff' % i), os.path.join(dst, 'patch.diff'))
    meta = dict(summary=m['pair'], difference_to_breaking_twin=m['difference'], why_equivalent=m['why_neutral_is_equivalent'], files=m['files'],
                verified='test suite passes; the pair\'s demonstration exits 0 (re-run in a scratch worktree)')
    if sid:
        meta['twin'] = 'seeded/' + sid
    json.dump(meta, open(os.path.join(dst, 'meta.json'), 'w'), indent=1)
    print('neutral', tag)
